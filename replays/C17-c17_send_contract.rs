// REPLAY property=C17 harness=fragmenting::verif_fragmenting::c17_send_contract
// module under contract: /verif/kani/anapaya_edge_tun/fragmenting.rs
// failed obligations (verifier: Kani/CBMC):
//   [missing_definition] assertion  at unknown:unknown in std::sys::random::linux::getrandom::getrandom
//   [pointer_dereference] dereference failure: pointer NULL  at unknown:unknown in unknown
//   [pointer_dereference] dereference failure: pointer invalid  at unknown:unknown in unknown
//   [pointer_dereference] dereference failure: deallocated dynamic object  at unknown:unknown in unknown
//   [pointer_dereference] dereference failure: dead object  at unknown:unknown in unknown
//   [pointer_dereference] dereference failure: pointer outside object bounds  at unknown:unknown in unknown
//   [pointer_dereference] dereference failure: invalid integer address  at unknown:unknown in unknown
// concrete inputs found by the verifier; the test below is appended to the harness
// module and run against the real crate with `cargo kani playback`:
// replay on the real code: did not reproduce
//   error: unexpected argument '--target-dir' found
//   
//     tip: to pass '--target-dir' as a value, use '-- --target-dir'
//   
//   Usage: cargo-kani playback --unstable <UNSTABLE_FEATURE> [-- [TEST_ARGS]...]
//   
//   For more information, try '--help'.
/// Test generated for harness `fragmenting::verif_fragmenting::c17_send_contract` 
///
/// Check for `missing_definition`: "assertion"

#[test]
fn kani_concrete_playback_c17_send_contract_15567665882401705296() {
    let concrete_vals: Vec<Vec<u8>> = vec![
        // 0ul
        vec![0, 0, 0, 0, 0, 0, 0, 0],
        // 0ul
        vec![0, 0, 0, 0, 0, 0, 0, 0],
    ];
    kani::concrete_playback_run(concrete_vals, c17_send_contract);
}

