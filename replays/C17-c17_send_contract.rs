// REPLAY property=C17 harness=c17_send_contract (replay skipped)
// assertion
// dereference failure: pointer NULL
// dereference failure: pointer invalid
// dereference failure: deallocated dynamic object
// dereference failure: dead object
// dereference failure: pointer outside object bounds
// dereference failure: invalid integer address
