// REPLAY property=C17 harness=fragmenting::verif_fragmenting::c17_ingest_step
// module under contract: /verif/kani/anapaya_edge_tun/fragmenting.rs
// failed obligations (verifier: Kani/CBMC):
//   [assertion] "C17.wf: representation invariant broken by ingest_frame"  at /verif/kani/anapaya_edge_tun/fragmenting.rs:189 in fragmenting::verif_fragmenting::c17_ingest_step
//   [assertion] "C17.coupling: position counted as received without a frame of this packet"  at /verif/kani/anapaya_edge_tun/fragmenting.rs:192 in fragmenting::verif_fragmenting::c17_ingest_step
//   [assertion] "C17.intact: emitted byte was not received in a frame of this packet"  at /verif/kani/anapaya_edge_tun/fragmenting.rs:203 in fragmenting::verif_fragmenting::c17_ingest_step
// the verifier produced no concrete input for this obligation (no-failing-input-found)
// verifier output tail:
//     |
//     = note: requested on the command line with `--force-warn unstable-features`
//   
//   warning: use of an unstable feature
//    --> <crate attribute>:1:12
//     |
//   1 | #![feature(register_tool)]
//     |            ^^^^^^^^^^^^^
//     |
//     = note: requested on the command line with `--force-warn unstable-features`
//   
//      Compiling anapaya-edge-tun v0.6.0 (/repo/crates/libs/anapaya-edge-tun)
//   warning: use of an unstable feature
//    --> <crate attribute>:1:12
//     |
//   1 | #![feature(register_tool)]
//     |            ^^^^^^^^^^^^^
//     |
//     = note: requested on the command line with `--force-warn unstable-features`
//   
//   warning: Found the following unsupported constructs:
//                - caller_location (1)
//                - foreign function (2)
//            
//            Verification will fail if one or more of these constructs is reachable.
//            See https://model-checking.github.io/kani/rust-feature-support.html for more details.
//   
//       Finished `dev` profile [unoptimized + debuginfo] target(s) in 2.90s
//   warning: the following packages contain code that will be rejected by a future version of Rust: ana-gotatun v0.2.1-ana.0, nix v0.30.1
//   note: to see what the problems were, use the option `--future-incompat-report`, or run `cargo report future-incompatibilities --id 1`
//   Checking harness fragmenting::verif_fragmenting::c17_ingest_step...
//   
//   CBMC failed
//   VERIFICATION:- FAILED
//   CBMC appears to have run out of memory. You may want to rerun your proof in an environment with additional memory or use stubbing to reduce the size of the code the verifier reasons about.
//   
//   The concrete playback feature did not generate unit tests, but there were failing harnesses. Please file a bug report at https://github.com/model-checking/kani/issues/new?labels=bug&template=bug_report.md
//   Manual Harness Summary:
//   Verification failed for - fragmenting::verif_fragmenting::c17_ingest_step
//   Complete - 0 successfully verified harnesses, 1 failures, 1 total.
