// REPLAY property=C14 harness=proto::payload::scmp::layout::verif_c14_scmp_layout::c14_budget_dest_unreachable
// module under contract: /verif/kani/sciparse/c14_scmp_layout.rs
// failed obligations (verifier: Kani/CBMC):
//   [assertion] "C14.budget: SCMP error packet exceeds 1232 bytes"  at /verif/kani/sciparse/c14_scmp_layout.rs:59 in proto::payload::scmp::layout::verif_c14_scmp_layout::c14_budget_dest_unreachable
// concrete inputs found by the verifier; the test below is appended to the harness
// module and run against the real crate with `cargo kani playback`:
// replay on the real code: REPRODUCED (test panics)
//                at /home/runner/.rustup/toolchains/nightly-2026-08-21-x86_64-unknown-linux-gnu/lib/rustlib/src/rust/library/core/src/panicking.rs:80:14
//      2: sciparse::proto::payload::scmp::layout::verif_c14_scmp_layout::c14_budget_dest_unreachable
//                at /verif/kani/sciparse/c14_scmp_layout.rs:43:13
//      3: <sciparse::proto::payload::scmp::layout::verif_c14_scmp_layout::c14_budget_dest_unreachable as core::ops::function::Fn<()>>::call
//                at /home/runner/.rustup/toolchains/nightly-2026-08-21-x86_64-unknown-linux-gnu/lib/rustlib/src/rust/library/core/src/ops/function.rs:79:5
//      4: kani::concrete_playback::concrete_playback_run::<sciparse::proto::payload::scmp::layout::verif_c14_scmp_layout::c14_budget_dest_unreachable>
//                at /home/runner/work/kani/kani/library/kani/src/concrete_playback.rs:26:5
//      5: sciparse::proto::payload::scmp::layout::verif_c14_scmp_layout::kani_concrete_playback_c14_budget_dest_unreachable_8114457643454994816
//                at /verif/kani/sciparse/c14_scmp_layout.rs:77:5
//      6: sciparse::proto::payload::scmp::layout::verif_c14_scmp_layout::kani_concrete_playback_c14_budget_dest_unreachable_8114457643454994816::{closure#0}
//                at /verif/kani/sciparse/c14_scmp_layout.rs:70:76
//      7: <sciparse::proto::payload::scmp::layout::verif_c14_scmp_layout::kani_concrete_playback_c14_budget_dest_unreachable_8114457643454994816::{closure#0} as core::ops::function::FnOnce<()>>::call_once
//                at /home/runner/.rustup/toolchains/nightly-2026-08-21-x86_64-unknown-linux-gnu/lib/rustlib/src/rust/library/core/src/ops/function.rs:250:5
//      8: <fn() -> core::result::Result<(), alloc::string::String> as core::ops::function::FnOnce<()>>::call_once
//                at /home/runner/.rustup/toolchains/nightly-2026-08-21-x86_64-unknown-linux-gnu/lib/rustlib/src/rust/library/core/src/ops/function.rs:250:5
//   note: Some details are omitted, run with `RUST_BACKTRACE=full` for a verbose backtrace.
//   
//   
//   failures:
//       proto::payload::scmp::layout::verif_c14_scmp_layout::kani_concrete_playback_c14_budget_dest_unreachable_8114457643454994816
//   
//   test result: FAILED. 0 passed; 1 failed; 0 ignored; 0 measured; 174 filtered out; finished in 0.81s
//   
//   error: test failed, to rerun pass `--lib`
//   error: /root/.kani/kani-0.68.0/toolchain/bin/cargo exited with status exit status: 101
/// Test generated for harness `proto::payload::scmp::layout::verif_c14_scmp_layout::c14_budget_dest_unreachable` 
///
/// Check for `assertion`: ""C14.budget: SCMP error packet exceeds 1232 bytes""

#[test]
fn kani_concrete_playback_c14_budget_dest_unreachable_8114457643454994816() {
    let concrete_vals: Vec<Vec<u8>> = vec![
        // 1225ul
        vec![201, 4, 0, 0, 0, 0, 0, 0],
        // 0ul
        vec![0, 0, 0, 0, 0, 0, 0, 0],
    ];
    kani::concrete_playback_run(concrete_vals, c14_budget_dest_unreachable);
}

