// REPLAY property=C01 harness=c01_segment_plan_requests_every_needed_kind (replay skipped)
// "C01.plan-chain: core request does not end where the down request starts"
