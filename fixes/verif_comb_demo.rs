// Concrete demonstrations (plain cargo test) for findings of the C01/C04/C18/C19 contract units.
use std::panic::{AssertUnwindSafe, catch_unwind};

use sciparse::{
    core::view::View,
    dataplane_path::{
        standard::{
            mac::ForwardingKey,
            routing::{HopMacValidator, IngressAdvanceAction, IngressValidateResult, EgressValidateResult},
            types::HopFieldMac,
            view::StandardPathView,
        },
        view::ScionDpPathView,
    },
    identifier::isd_asn::IsdAsn,
    path::{ScionPath, combinator::combine},
    reexport::p256,
    segment::{AsEntry, HopEntry, PeerEntry, SegmentHopField, SignedPathSegment, UnsignedPathSegment},
};

fn ia(n: u64) -> IsdAsn {
    IsdAsn::from_u64((1u64 << 48) | n)
}
fn key(ia: IsdAsn) -> ForwardingKey {
    let mut k = [0x42u8; 16];
    k[8..].copy_from_slice(&ia.to_u64().to_be_bytes());
    k
}
fn entry(local: u64, ing: u16, eg: u16, mtu: u32, peers: Vec<PeerEntry>) -> AsEntry {
    AsEntry {
        local: ia(local),
        next: ia(0),
        mtu,
        hop_entry: HopEntry {
            ingress_mtu: 1400,
            hop_field: SegmentHopField { expiration_units: 63, cons_ingress: ing, cons_egress: eg, mac: HopFieldMac([0; 6]) },
        },
        peer_entries: peers,
        extensions: vec![],
        unsigned_extensions: vec![],
    }
}
fn peer(peer_as: u64, peer_if: u16, local_if: u16, eg: u16) -> PeerEntry {
    PeerEntry {
        peer: ia(peer_as),
        peer_interface: peer_if,
        peer_mtu: 1300,
        hop_field: SegmentHopField { expiration_units: 63, cons_ingress: local_if, cons_egress: eg, mac: HopFieldMac([0; 6]) },
    }
}
fn seg(ts: u32, segid: u16, entries: Vec<AsEntry>) -> UnsignedPathSegment {
    let mut s = UnsignedPathSegment::new(ts, segid, vec![]);
    for e in entries {
        let k = key(e.local);
        s.add_unsigned_entry(e, &k);
    }
    s
}

/// Walks the path like the routers of the on-path ASes would: `owners[i]` is the AS owning hop i.
/// Returns Ok(()) if every hop validates and the walk ends with ForwardLocal.
fn walk(path: &ScionPath, owners: &[IsdAsn]) -> Result<(), String> {
    let ScionDpPathView::Standard(v) = path.dp_path().clone() else { return Err("not standard".into()) };
    walk_view(v, owners).map(|_| ())
}

/// Forward walk, then reverse the travelled path at the destination and walk back.
fn walk_there_and_back(path: &ScionPath, owners: &[IsdAsn]) -> (Result<(), String>, Result<(), String>) {
    let ScionDpPathView::Standard(v) = path.dp_path().clone() else { panic!("not standard") };
    match walk_view(v, owners) {
        Err(e) => (Err(e), Err("not attempted".into())),
        Ok(mut v) => {
            if let Err(e) = v.try_reverse() {
                return (Ok(()), Err(format!("reverse: {e}")));
            }
            let mut ro = owners.to_vec();
            ro.reverse();
            (Ok(()), walk_view(v, &ro).map(|_| ()))
        }
    }
}

fn walk_view(v: Box<StandardPathView>, owners: &[IsdAsn]) -> Result<Box<StandardPathView>, String> {
    let mut v: Box<StandardPathView> = v;
    let mut first = true;
    for _ in 0..200 {
        if !first {
            let idx = v.curr_hop_field_idx() as usize;
            let val = HopMacValidator { key: key(owners[idx]) };
            match v.advance_ingress_with_validator(val, false).map_err(|e| format!("ingress hop {idx}: {e}"))? {
                IngressValidateResult::Ok(out) => {
                    if matches!(out.action, IngressAdvanceAction::ForwardLocal) {
                        return if idx + 1 == owners.len() { Ok(v) } else { Err(format!("ForwardLocal at hop {idx}")) };
                    }
                }
                IngressValidateResult::ValidationFailed(_, e) => return Err(format!("ingress hop {idx} of {}: {e}", owners[idx])),
            }
        }
        first = false;
        let idx = v.curr_hop_field_idx() as usize;
        let val = HopMacValidator { key: key(owners[idx]) };
        match v.advance_egress_with_validator(val).map_err(|e| format!("egress hop {idx}: {e}"))? {
            EgressValidateResult::Ok(_) => {}
            EgressValidateResult::ValidationFailed(_, e) => return Err(format!("egress hop {idx} of {}: {e}", owners[idx])),
        }
    }
    Err("walk did not terminate".into())
}

fn owners_of(path: &ScionPath) -> Vec<IsdAsn> {
    // interface list = (egress, ingress) pairs; hop owners = src, then the AS of each ingress
    let ifs = path.metadata().unwrap().interfaces.as_ref().unwrap();
    let mut o = vec![ifs[0].interface.isd_asn];
    let mut i = 1;
    while i < ifs.len() {
        o.push(ifs[i].interface.isd_asn);
        i += 2;
    }
    o
}

// ---------------------------------------------------------------------------------------------
// sanity: up + core + down path walks and reverses
// ---------------------------------------------------------------------------------------------
#[test]
fn demo_plain_path_walks_both_ways() {
    let up = seg(1000, 7, vec![entry(10, 0, 1, 1500, vec![]), entry(11, 2, 3, 1500, vec![]), entry(12, 4, 0, 1500, vec![])]);
    let core = seg(1001, 8, vec![entry(20, 0, 5, 1500, vec![]), entry(10, 6, 0, 1500, vec![])]);
    let down = seg(1002, 9, vec![entry(20, 0, 7, 1500, vec![]), entry(21, 8, 9, 1500, vec![]), entry(22, 10, 0, 1500, vec![])]);
    let paths = combine(ia(12), ia(22), vec![core], vec![up, down]);
    assert_eq!(paths.len(), 1);
    let p = &paths[0];
    // hop owners incl. both crossover hop fields
    let owners = [ia(12), ia(11), ia(10), ia(10), ia(20), ia(20), ia(21), ia(22)];
    let (fwd, back) = walk_there_and_back(p, &owners);
    fwd.expect("forward walk");
    back.expect("reverse walk");
}

// ---------------------------------------------------------------------------------------------
// F-zero-ifid (C19): all interface ids zero => `expect("edges are checked to be not empty")`
// ---------------------------------------------------------------------------------------------
#[test]
fn demo_zero_interface_ids_panic_in_combine() {
    let core = seg(1000, 1, vec![entry(1, 0, 0, 1500, vec![]), entry(2, 0, 0, 1500, vec![])]);
    let r = catch_unwind(AssertUnwindSafe(|| combine(ia(1), ia(2), vec![core], vec![])));
    assert!(r.is_ok(), "combine() panicked on a segment whose hop fields have interface id 0");
}

// ---------------------------------------------------------------------------------------------
// F-mtu-trunc (C04-3/C19): AS MTU is u32 and narrowed with `as u16`
// ---------------------------------------------------------------------------------------------
#[test]
fn demo_as_mtu_truncated() {
    let core = seg(1000, 1, vec![entry(1, 0, 1, 65536 + 9, vec![]), entry(2, 2, 0, 65536 + 9, vec![])]);
    let paths = combine(ia(1), ia(2), vec![core], vec![]);
    assert_eq!(paths.len(), 1);
    let mtu = paths[0].metadata().unwrap().mtu;
    // true minimum over AS MTUs (65545) and ingress MTUs (1400) is 1400
    assert_eq!(mtu, 1400, "path MTU is not the minimum over the traversed ASes and links");
}

// ---------------------------------------------------------------------------------------------
// F-hops64 (C19): 3 x 26 = 78 hop fields are offered although CurrHF is a 6-bit field
// ---------------------------------------------------------------------------------------------
#[test]
fn demo_more_than_64_hops_offered() {
    let n = 26u64;
    let mk = |base: u64, first: u64, last: u64| -> Vec<AsEntry> {
        (0..n)
            .map(|i| {
                let a = if i == 0 { first } else if i == n - 1 { last } else { base + i };
                entry(a, if i == 0 { 0 } else { 2 * i as u16 }, if i == n - 1 { 0 } else { 2 * i as u16 + 1 }, 1500, vec![])
            })
            .collect()
    };
    let up = seg(1000, 1, mk(100, 1, 500));
    let core = seg(1000, 2, mk(200, 2, 1));
    let down = seg(1000, 3, mk(300, 2, 600));
    let paths = combine(ia(500), ia(600), vec![core], vec![up, down]);
    eprintln!("paths offered: {}", paths.len());
    for p in &paths {
        let ScionDpPathView::Standard(v) = p.dp_path() else { panic!() };
        let hops = v.hop_field_count();
        eprintln!("hop fields: {hops}");
        let owners = owners_of(p);
        // owners_of does not duplicate crossover ASes; build the precise list instead
        let mut own = Vec::new();
        let ifs = p.metadata().unwrap().interfaces.as_ref().unwrap();
        own.push(ifs[0].interface.isd_asn);
        let mut i = 1;
        while i < ifs.len() {
            own.push(ifs[i].interface.isd_asn);
            // crossover: the same AS owns the last hop of one segment and the first of the next
            if ifs[i].interface.isd_asn == ia(1) || ifs[i].interface.isd_asn == ia(2) {
                own.push(ifs[i].interface.isd_asn);
            }
            i += 2;
        }
        let _ = owners;
        let res = catch_unwind(AssertUnwindSafe(|| walk(p, &own)));
        eprintln!("walk result: {res:?}");
        assert!(hops as usize <= 64, "a path with {hops} hop fields was offered (CurrHF is 6 bits); walk: {res:?}");
    }
}

// ---------------------------------------------------------------------------------------------
// F-peer (C01): peering path built by the combinator from segments built by update_macs
// ---------------------------------------------------------------------------------------------
#[test]
fn demo_peering_path_is_forwardable() {
    // up:   10(core) -> 11 -> 12(leaf);  11 peers with 21 over 11#50 <-> 21#60
    // down: 20(core) -> 21 -> 22(leaf)
    let up = seg(1000, 7, vec![
        entry(10, 0, 1, 1500, vec![]),
        entry(11, 2, 3, 1500, vec![peer(21, 60, 50, 3)]),
        entry(12, 4, 0, 1500, vec![]),
    ]);
    let down = seg(1002, 9, vec![
        entry(20, 0, 7, 1500, vec![]),
        entry(21, 8, 9, 1500, vec![peer(11, 50, 60, 9)]),
        entry(22, 10, 0, 1500, vec![]),
    ]);
    let paths = combine(ia(12), ia(22), vec![], vec![up, down]);
    assert_eq!(paths.len(), 1, "exactly the peering path");
    let p = &paths[0];
    eprintln!("{p}");
    let owners = [ia(12), ia(11), ia(21), ia(22)];
    let (fwd, back) = walk_there_and_back(p, &owners);
    eprintln!("forward: {fwd:?}\nreverse: {back:?}");
    assert!(fwd.is_ok() && back.is_ok(), "peering path rejected by the MAC-verifying routers: fwd={fwd:?} back={back:?}");
}

// shortcut path (common non-core AS 11)
#[test]
fn demo_shortcut_path_is_forwardable() {
    let up = seg(1000, 7, vec![entry(10, 0, 1, 1500, vec![]), entry(11, 2, 3, 1500, vec![]), entry(12, 4, 0, 1500, vec![])]);
    let down = seg(1002, 9, vec![entry(10, 0, 1, 1500, vec![]), entry(11, 2, 5, 1500, vec![]), entry(13, 6, 0, 1500, vec![])]);
    let paths = combine(ia(12), ia(13), vec![], vec![up, down]);
    eprintln!("offered {}", paths.len());
    let sc = paths.iter().find(|p| {
        let ScionDpPathView::Standard(v) = p.dp_path() else { return false };
        v.hop_field_count() == 4
    }).expect("shortcut path offered");
    let owners = [ia(12), ia(11), ia(11), ia(13)];
    let (fwd, back) = walk_there_and_back(sc, &owners);
    assert!(fwd.is_ok() && back.is_ok(), "shortcut path rejected: fwd={fwd:?} back={back:?}");
}

// ---------------------------------------------------------------------------------------------
// F-assoc-dup (C18-2): appended copy of an earlier signed entry validates
// ---------------------------------------------------------------------------------------------
#[test]
fn demo_appended_copy_of_signed_entry_validates() {
    let sk1 = p256::ecdsa::SigningKey::from_slice(&[1u8; 32]).unwrap();
    let sk2 = p256::ecdsa::SigningKey::from_slice(&[2u8; 32]).unwrap();
    let mut s = SignedPathSegment::empty(1000, 5);
    s.add_entry(entry(1, 0, 1, 1500, vec![]), &sk1, None, &key(ia(1)), 1000).unwrap();
    s.add_entry(entry(2, 2, 0, 1500, vec![]), &sk2, None, &key(ia(2)), 1000).unwrap();
    let kp = |e: &sciparse::segment::SignedAsEntry| {
        let k = if e.entry().local == ia(1) { *sk1.verifying_key() } else { *sk2.verifying_key() };
        move |_: &[u8]| Ok(k)
    };
    for e in &s.as_entries {
        e.validate_signature(kp(e), &s).expect("honest segment validates");
    }
    // extension by a hostile relay: append a copy of entry 1 (AS 2 never signed a third entry)
    let dup = s.as_entries[1].clone();
    s.as_entries.push(dup);
    let third = &s.as_entries[2];
    let r = third.validate_signature(kp(third), &s);
    assert!(r.is_err(), "entry at index 2 validates although it was signed over [info, E0] only, not over [info, E0, E1]");
}
