//! Plain reproductions of the defects F-rev and F-onehop-exp found by the C12 contracts.
use sciparse::{
    core::view::View,
    dataplane_path::{onehop::view::OneHopPathView, standard::view::StandardPathView},
};

/// F-rev: standard path with segment lengths (2,3,0), CurrINF 0, CurrHF 10 (out of range).
/// `try_reverse` reports an error, so the bytes must be exactly as before.
#[test]
fn f_rev_failed_reversal_leaves_bytes_unchanged() {
    let mut buf = vec![0u8; 4 + 2 * 8 + 5 * 12];
    let meta: u32 = (10 << 24) | (2 << 12) | (3 << 6);
    buf[..4].copy_from_slice(&meta.to_be_bytes());
    let before = buf.clone();
    let (view, rest) = StandardPathView::try_from_mut_slice(&mut buf).unwrap();
    assert!(rest.is_empty());
    assert!(view.try_reverse().is_err());
    assert_eq!(buf, before, "a failed reversal must leave the path untouched");
}

/// F-onehop-exp: one-hop path whose info timestamp is u32::MAX.
#[test]
fn f_onehop_exp_expiration_saturates() {
    let mut buf = [0u8; 32];
    buf[4..8].copy_from_slice(&u32::MAX.to_be_bytes());
    let (view, _) = OneHopPathView::try_from_slice(&buf).unwrap();
    assert_eq!(view.expiration(), u32::MAX);
}
