//! Demonstrations of the defects found by the C02/C03 contracts (plain `cargo test`).
use sciparse::{
    address::socket_addr::ScionSocketAddr,
    core::{encode::WireEncode, view::View},
    dataplane_path::model::DpPath,
    packet::{model::ScionUdpPacket, view::ScionUdpPacketView},
};

fn udp_packet(n: usize) -> ScionUdpPacket {
    let src: ScionSocketAddr = "[1-ff00:0:110,10.0.0.1]:1000".parse().unwrap();
    let dst: ScionSocketAddr = "[1-ff00:0:111,10.0.0.2]:2000".parse().unwrap();
    ScionUdpPacket::new(src, dst, DpPath::Empty, vec![0u8; n])
}

/// F-trunc: a 70 000-byte UDP payload is accepted and encoded with wrapped 16-bit length fields.
#[test]
fn f_trunc_udp_70000() {
    let pkt = udp_packet(70_000);
    assert!(
        pkt.wire_valid().is_err(),
        "wire_valid() accepted a packet whose payload (70 008 B) does not fit the 16-bit PayloadLen"
    );
}

/// F-trunc (what is written on the unchanged tree)
#[test]
fn f_trunc_udp_70000_written_fields() {
    let pkt = udp_packet(70_000);
    if let Ok(bytes) = pkt.try_encode_to_vec() {
        let payload_len = u16::from_be_bytes([bytes[6], bytes[7]]) as usize;
        let hdr = bytes[5] as usize * 4;
        let udp_len = u16::from_be_bytes([bytes[hdr + 4], bytes[hdr + 5]]) as usize;
        panic!(
            "encoded {} bytes; PayloadLen field = {payload_len}, UDP length field = {udp_len}, real payload = {}",
            bytes.len(),
            bytes.len() - hdr
        );
    }
}

/// F-udp-raw-mut: safe code makes the safe accessor `udp()` panic.
#[test]
fn f_udp_raw_mut_panics() {
    let mut bytes = udp_packet(4).try_encode_to_vec().unwrap();
    let (view, _) = ScionUdpPacketView::try_from_mut_slice(&mut bytes).unwrap();
    #[allow(unused_unsafe)]
    let raw = unsafe { view.as_raw_mut() };
    raw.payload_mut()[4..6].copy_from_slice(&[0, 0]); // UDP length := 0
    let _ = view.udp().src_port(); // panics on the unchanged tree
}
