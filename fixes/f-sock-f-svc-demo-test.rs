// Demonstration tests for F-sock and F-svc (plain cargo test; fail on the unfixed tree).
use std::str::FromStr;

use sciparse::address::{host_addr::ServiceAddr, socket_addr::ScionSocketAddr};

#[test]
fn f_sock_colon_port_does_not_panic() {
    assert!(ScionSocketAddr::from_str(":80").is_err());
    assert!(ScionSocketAddr::from_str("[:80").is_err());
}

#[test]
fn f_sock_garbage_instead_of_brackets_is_rejected() {
    assert!(ScionSocketAddr::from_str("x1-ff00:0:110,10.0.0.1y:1000").is_err());
    assert!(ScionSocketAddr::from_str("[1-ff00:0:110,10.0.0.1]:1000").is_ok());
}

#[test]
fn f_svc_every_service_value_round_trips() {
    for v in 0..=u16::MAX {
        let a = ServiceAddr(v);
        assert_eq!(ServiceAddr::from_str(&a.to_string()), Ok(a), "{a}");
    }
    assert!(ServiceAddr::from_str("<SVC:0x8003>").is_err());
    assert!(ServiceAddr::from_str("<SVC:0x3>").is_err());
    assert!(ServiceAddr::from_str("<SVC:0x00A3>").is_err());
}
