// Demonstration for C14: SCMP messages are encoded with a checksum that does not cover the message.
use std::net::Ipv4Addr;

use sciparse::{
    address::addr::ScionAddr,
    core::encode::WireEncode,
    dataplane_path::model::DpPath,
    identifier::{asn::Asn, isd::Isd, isd_asn::IsdAsn},
    packet::model::ScionScmpPacket,
    payload::scmp::model::{ScmpEchoRequest, ScmpParameterProblem},
    payload::scmp::types::ScmpParameterProblemCode,
};

/// RFC 1071 one's complement sum over pseudo header + message; 0xffff (i.e. !sum == 0) iff valid.
fn rfc1071_valid(pkt: &[u8]) -> bool {
    let hdr_len = pkt[5] as usize * 4;
    let dl = ((pkt[9] >> 4) & 3) as usize * 4 + 4;
    let sl = (pkt[9] & 3) as usize * 4 + 4;
    let msg = &pkt[hdr_len..];
    let mut ph: Vec<u8> = pkt[12..12 + 16 + dl + sl].to_vec();
    ph.extend_from_slice(&(msg.len() as u32).to_be_bytes());
    ph.extend_from_slice(&[0, 0, 0, pkt[4]]);
    ph.extend_from_slice(msg);
    if ph.len() % 2 == 1 {
        ph.push(0);
    }
    let mut s: u32 = 0;
    for c in ph.chunks(2) {
        s += ((c[0] as u32) << 8) | c[1] as u32;
        s = (s & 0xffff) + (s >> 16);
    }
    s == 0xffff
}

fn addrs() -> (ScionAddr, ScionAddr) {
    let ia = IsdAsn::new(Isd(1), Asn::new(0xff00_0000_0110));
    (
        ScionAddr::new(ia, Ipv4Addr::new(10, 0, 0, 1).into()),
        ScionAddr::new(ia, Ipv4Addr::new(10, 0, 0, 2).into()),
    )
}

#[test]
fn echo_request_checksum_is_valid() {
    let (src, dst) = addrs();
    let pkt = ScionScmpPacket::new(src, dst, DpPath::Empty, ScmpEchoRequest::new(7, 1, vec![1, 2, 3, 4]).into());
    let bytes = pkt.try_encode_to_vec().unwrap();
    assert!(rfc1071_valid(&bytes), "echo request checksum invalid: {:02x?}", bytes);
}

#[test]
fn parameter_problem_checksum_is_valid() {
    let (src, dst) = addrs();
    let pkt = ScionScmpPacket::new(
        src,
        dst,
        DpPath::Empty,
        ScmpParameterProblem::new(ScmpParameterProblemCode::InvalidCommonHeader, 0, vec![0xde, 0xad, 0xbe, 0xef]).into(),
    );
    let bytes = pkt.try_encode_to_vec().unwrap();
    assert!(rfc1071_valid(&bytes), "parameter problem checksum invalid: {:02x?}", bytes);
}
