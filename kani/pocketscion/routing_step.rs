//! C13 — one AS step of the standard-path router (`StdRoutingLogic::handle_standard_path`) on
//! symbolic path bytes. Hooked at the end of `routing/spec/standard.rs` (second hook line); reuses
//! the independent decoders / stub MAC of `verif_routing_standard`.
//!
//! Class B: the segment-length shape of the path is fixed per harness ([2,0,0] = 36 B, [3,0,0] =
//! 48 B, [2,2,0] = 68 B); every other byte (CurrINF/CurrHF, RSV, info fields, hop fields) is symbolic,
//! as are the arriving interface, the clock, the key, `ignore_macs` and the topology answers.

use super::verif_routing_standard::*;
use super::*;

const META: usize = 4;

/// PathMeta: | C(2) CurrHF(6) | RSV(6) Seg0Len(6) Seg1Len(6) Seg2Len(6) |
fn any_path<const N: usize>(seg: [u8; 3]) -> [u8; N] {
    let mut b: [u8; N] = kani::any();
    let rsv: u8 = kani::any();
    b[1] = (rsv << 2) | (seg[0] >> 4);
    b[2] = ((seg[0] & 0x0F) << 4) | (seg[1] >> 2);
    b[3] = ((seg[1] & 0x03) << 6) | seg[2];
    b
}
fn spec_curr_inf(b: &[u8]) -> usize {
    (b[0] >> 6) as usize
}
fn spec_curr_hf(b: &[u8]) -> usize {
    (b[0] & 0x3F) as usize
}
fn info_off(k: usize) -> usize {
    META + 8 * k
}
fn hop_off(n_info: usize, j: usize) -> usize {
    META + 8 * n_info + 12 * j
}

/// topology answers: an arbitrary function u16 -> Option<state> restricted to <= 3 query classes
struct Topo {
    k1: u16,
    k2: u16,
    s1: Option<AsRoutingInterfaceState>,
    s2: Option<AsRoutingInterfaceState>,
    s3: Option<AsRoutingInterfaceState>,
}
impl Topo {
    fn any() -> Self {
        Topo { k1: kani::any(), k2: kani::any(), s1: any_iface(), s2: any_iface(), s3: any_iface() }
    }
    fn get(&self, id: u16) -> Option<AsRoutingInterfaceState> {
        if id == self.k1 {
            self.s1.clone()
        } else if id == self.k2 {
            self.s2.clone()
        } else {
            self.s3.clone()
        }
    }
}

struct Step<const N: usize> {
    before: [u8; N],
    after: [u8; N],
    res: Result<AsRoutingAction, StandardRoutingError>,
    ingress_if: u16,
    now: u32,
    key: ForwardingKey,
    ignore_macs: bool,
    topo: Topo,
}

fn run_step<const N: usize>(seg: [u8; 3], ignore_macs: bool, b0: Option<u8>) -> Step<N> {
    let before: [u8; N] = {
        let mut b = any_path::<N>(seg);
        if let Some(v) = b0 {
            b[0] = v; // (CurrINF << 6) | CurrHF
        }
        b
    };
    let mut buf = before;
    let ingress_if: u16 = kani::any();
    let now: u32 = kani::any();
    let key: ForwardingKey = kani::any();
    let topo = Topo::any();
    let local_as = IsdAsn(kani::any());
    let res = {
        let (path, _rest) = StandardPathView::try_from_mut_slice(&mut buf).unwrap();
        let lookup = |id: u16| topo.get(id);
        StdRoutingLogic::handle_standard_path(
            local_as,
            path,
            ingress_if,
            ScionNetworkTime(now),
            &key,
            &lookup,
            ignore_macs,
        )
    };
    Step { before, after: buf, res, ingress_if, now, key, ignore_macs, topo }
}

/// Obligations shared by all shapes. `seg` = segment lengths, `n_info` = number of info fields.
fn check_step<const N: usize>(s: &Step<N>, seg: [u8; 3], n_info: usize) {
    let n_hops = (seg[0] + seg[1] + seg[2]) as usize;
    let j = spec_curr_hf(&s.before);
    let c = spec_curr_inf(&s.before);
    let j_after = spec_curr_hf(&s.after);

    match &s.res {
        Ok(AsRoutingAction::ForwardNextHop { egress_interface_id: e }) => {
            // termination measure: CurrHF (6 bits) strictly increases on every forwarding verdict
            assert!(j_after >= j + 1, "C13.step_progress: CurrHF not advanced on ForwardNextHop");
            assert!(j < n_hops && j_after < n_hops, "C13.step_progress: forwarded past the end of the path");
            // the hop field that owns the egress is the one CurrHF points to after the step minus
            // nothing: egress processing does not skip hop fields (j_after - 1 is the processed one)
            let p = j_after - 1;
            assert!(p == j || p == j + 1, "C13.step_progress: more than one segment change in one AS");
            // which segment does hop p belong to
            let kp = if p < seg[0] as usize { 0 } else if p < (seg[0] + seg[1]) as usize { 1 } else { 2 };
            let hp = spec_hop(&s.before[hop_off(n_info, p)..hop_off(n_info, p) + 12]);
            let ip = spec_info(&s.before[info_off(kp)..info_off(kp) + 8]);
            assert!(*e == hp.travel_egress(&ip), "C13.step_egress: forwarded over an interface that is not the travel-direction egress of the processed hop field");
            match s.topo.get(*e) {
                Some(st) => assert!(st.is_up, "C13.step_linkup: forwarded over a link that is down"),
                None => assert!(false, "C13.step_linkup: forwarded over a non-existing link"),
            }
            // unexpired
            assert!(hp.time_ok(&ip, s.now), "C13.step_unexpired: forwarded with an expired / future hop field");
            // authentic (stubbed MAC). SegID accumulator rule: against construction direction the
            // router first folds the hop's MAC into SegID when the packet came from outside; a
            // hop field entered through a segment change is verified with the new segment's SegID.
            if !s.ignore_macs {
                let beta = if p == j && !ip.cons_dir && s.ingress_if != 0 {
                    ip.seg_id ^ (((hp.mac[0] as u16) << 8) | hp.mac[1] as u16)
                } else {
                    ip.seg_id
                };
                assert!(hp.mac_ok(beta, &ip, &s.key), "C13.step_authentic: forwarded with a hop field whose MAC does not verify");
            }
            if p == j + 1 {
                // segment change inside this AS: hop j ended its segment, link-type table holds
                let kj = kp - 1;
                let hj = spec_hop(&s.before[hop_off(n_info, j)..hop_off(n_info, j) + 12]);
                let ij = spec_info(&s.before[info_off(kj)..info_off(kj) + 8]);
                let a = s.topo.get(hj.travel_ingress(&ij));
                let b = s.topo.get(*e);
                match (a, b) {
                    (Some(a), Some(b)) => assert!(
                        spec_segment_change_allowed(a.link_type, b.link_type),
                        "C13.step_segchange: forwarded across a valley / core loop / splice"
                    ),
                    _ => assert!(false, "C13.step_segchange: segment change over unknown interfaces"),
                }
                assert!(hj.time_ok(&ij, s.now), "C13.step_unexpired: crossover with expired first hop field");
                assert!(spec_curr_inf(&s.after) == c + 1, "C13.step_progress: CurrINF not advanced with the segment change");
            } else {
                assert!(spec_curr_inf(&s.after) == c, "C13.step_progress: CurrINF changed without segment change");
            }
        }
        Ok(AsRoutingAction::Local(LocalAsRoutingAction::ForwardLocal)) => {
            assert!(j + 1 == n_hops, "C13.step_local: ForwardLocal before the last hop field");
            let kj = n_info - 1;
            let hj = spec_hop(&s.before[hop_off(n_info, j)..hop_off(n_info, j) + 12]);
            let ij = spec_info(&s.before[info_off(kj)..info_off(kj) + 8]);
            assert!(hj.time_ok(&ij, s.now), "C13.step_unexpired: delivered with an expired / future hop field");
            if !s.ignore_macs {
                let beta = if !ij.cons_dir && s.ingress_if != 0 {
                    ij.seg_id ^ (((hj.mac[0] as u16) << 8) | hj.mac[1] as u16)
                } else {
                    ij.seg_id
                };
                assert!(hj.mac_ok(beta, &ij, &s.key), "C13.step_authentic: delivered with a hop field whose MAC does not verify");
            }
        }
        Ok(AsRoutingAction::Local(LocalAsRoutingAction::IngressSCMPHandleRequest { interface_id })) => {
            assert!(*interface_id == s.ingress_if && s.ingress_if != 0, "C13.step_alert: ingress alert handled for another interface");
        }
        Ok(AsRoutingAction::Local(LocalAsRoutingAction::EgressSCMPHandleRequest { interface_id })) => {
            assert!(*interface_id != 0, "C13.step_alert: egress alert on interface 0");
        }
        Ok(_) => assert!(false, "C13.step_verdict: unexpected verdict class"),
        Err(StandardRoutingError::AdvanceFailed(_)) => {
            // malformed path => dropped, packet untouched (one symbolic byte index)
            let k: usize = kani::any();
            kani::assume(k < N);
            assert!(s.after[k] == s.before[k], "C13.step_frame: path bytes changed on a malformed-path drop");
        }
        Err(_) => {}
    }
    // frame for every verdict: segment lengths never change; only CurrINF/CurrHF, the SegID of an
    // info field and the flag byte of a hop field may be written
    let k: usize = kani::any();
    kani::assume(k < N);
    let in_meta_len = k >= 1 && k < META;
    let in_info = k >= META && k < META + 8 * n_info;
    let in_hop = k >= META + 8 * n_info;
    let info_rel = if in_info { (k - META) % 8 } else { 0 };
    let hop_rel = if in_hop { (k - META - 8 * n_info) % 12 } else { 0 };
    if in_meta_len || (in_info && info_rel != 2 && info_rel != 3) || (in_hop && hop_rel != 0) {
        assert!(s.after[k] == s.before[k], "C13.step_frame: byte outside CurrINF/CurrHF, SegID, hop flags was modified");
    }
}

// ---------------------------------------------------------------------------------------------
// (3) AS step, one harness per position of the packet in the path (CurrINF/CurrHF concrete and
//     consistent); the *_anyidx harnesses (tier thorough) leave CurrINF/CurrHF symbolic, which also
//     covers inconsistent / out-of-range indices (malformed => drop, packet untouched).
// ---------------------------------------------------------------------------------------------

#[kani::proof]
#[kani::unwind(8)]
#[kani::stub(sciparse::dataplane_path::standard::mac::algo::calculate_hop_mac, stub_hop_mac)]
fn c13_step_first_hop() {
    let s = run_step::<36>([2, 0, 0], kani::any(), Some(0));
    check_step(&s, [2, 0, 0], 1);
    kani::cover!(matches!(s.res, Ok(AsRoutingAction::ForwardNextHop { .. })) && !s.ignore_macs && s.ingress_if == 0, "forward from the local network");
    kani::cover!(matches!(s.res, Err(StandardRoutingError::EgressInterfaceDown { .. })), "link down");
    kani::cover!(matches!(s.res, Err(StandardRoutingError::UnknownEgressInterface { .. })), "no link");
    kani::cover!(matches!(s.res, Err(StandardRoutingError::InvalidMacError { .. })), "mac");
}

#[kani::proof]
#[kani::unwind(8)]
#[kani::stub(sciparse::dataplane_path::standard::mac::algo::calculate_hop_mac, stub_hop_mac)]
fn c13_step_last_hop() {
    let s = run_step::<36>([2, 0, 0], kani::any(), Some(1));
    check_step(&s, [2, 0, 0], 1);
    kani::cover!(matches!(s.res, Ok(AsRoutingAction::Local(LocalAsRoutingAction::ForwardLocal))) && !s.ignore_macs && s.ingress_if != 0, "deliver");
    kani::cover!(matches!(s.res, Err(StandardRoutingError::SegmentExpired { .. })), "expired");
    kani::cover!(!matches!(s.res, Ok(AsRoutingAction::ForwardNextHop { .. })), "never forwards at the last hop");
}

/// three hop fields, packet at the middle one: transit (arrives externally, leaves externally)
#[kani::proof]
#[kani::unwind(8)]
#[kani::stub(sciparse::dataplane_path::standard::mac::algo::calculate_hop_mac, stub_hop_mac)]
fn c13_step_transit() {
    let s = run_step::<48>([3, 0, 0], kani::any(), Some(1));
    check_step(&s, [3, 0, 0], 1);
    kani::cover!(matches!(s.res, Ok(AsRoutingAction::ForwardNextHop { .. })) && s.ingress_if != 0 && !s.ignore_macs, "transit forward");
    kani::cover!(matches!(s.res, Ok(AsRoutingAction::Local(LocalAsRoutingAction::IngressSCMPHandleRequest { .. }))), "ingress alert");
    kani::cover!(matches!(s.res, Ok(AsRoutingAction::Local(LocalAsRoutingAction::EgressSCMPHandleRequest { .. }))), "egress alert");
}

/// two segments of two hop fields, packet at the last hop field of segment 0: segment change
#[kani::proof]
#[kani::unwind(8)]
#[kani::stub(sciparse::dataplane_path::standard::mac::algo::calculate_hop_mac, stub_hop_mac)]
fn c13_step_segchange() {
    let s = run_step::<68>([2, 2, 0], kani::any(), Some(1));
    check_step(&s, [2, 2, 0], 2);
    kani::cover!(matches!(s.res, Ok(AsRoutingAction::ForwardNextHop { .. })) && !s.ignore_macs, "segment change forward");
    kani::cover!(matches!(s.res, Err(StandardRoutingError::InvalidSegmentChange { .. })), "segment change refused");
}

#[kani::proof]
#[kani::unwind(8)]
#[kani::stub(sciparse::dataplane_path::standard::mac::algo::calculate_hop_mac, stub_hop_mac)]
fn c13_step_seg2_anyidx() {
    let s = run_step::<36>([2, 0, 0], kani::any(), None);
    check_step(&s, [2, 0, 0], 1);
    kani::cover!(matches!(s.res, Ok(AsRoutingAction::ForwardNextHop { .. })), "forward");
    kani::cover!(matches!(s.res, Ok(AsRoutingAction::Local(LocalAsRoutingAction::ForwardLocal))), "deliver");
    kani::cover!(matches!(s.res, Err(StandardRoutingError::AdvanceFailed(_))), "malformed");
}

#[kani::proof]
#[kani::unwind(8)]
#[kani::stub(sciparse::dataplane_path::standard::mac::algo::calculate_hop_mac, stub_hop_mac)]
fn c13_step_seg2x2_anyidx() {
    let s = run_step::<68>([2, 2, 0], kani::any(), None);
    check_step(&s, [2, 2, 0], 2);
    kani::cover!(matches!(s.res, Ok(AsRoutingAction::ForwardNextHop { .. })) && spec_curr_hf(&s.before) == 1, "segment change forward");
    kani::cover!(matches!(s.res, Ok(AsRoutingAction::Local(LocalAsRoutingAction::ForwardLocal))), "deliver");
    kani::cover!(matches!(s.res, Err(StandardRoutingError::AdvanceFailed(_))), "malformed");
}

// ---------------------------------------------------------------------------------------------
// (2, in context) the ingress-interface check belongs to the hop field the packet ARRIVED with
// ---------------------------------------------------------------------------------------------

/// Any non-error verdict for a packet that came in over an external interface implies that this
/// interface is the travel-direction ingress of the hop field CurrHF pointed to on arrival.
/// Quick variant: packet at the last of two hop fields; bytes the step does not read (hop field 0,
/// the MAC — ignored) are concrete zeros.
#[kani::proof]
#[kani::unwind(14)]
fn c13_step_ingress_owner() {
    let before: [u8; 36] = {
        let mut b = any_path::<36>([2, 0, 0]);
        b[0] = 1; // CurrINF 0, CurrHF 1
        let mut i = 0;
        while i < 12 {
            b[hop_off(1, 0) + i] = 0;
            i += 1;
        }
        let mut i = 6;
        while i < 12 {
            b[hop_off(1, 1) + i] = 0;
            i += 1;
        }
        b
    };
    let mut buf = before;
    let ingress_if: u16 = kani::any();
    let now: u32 = kani::any();
    let key: ForwardingKey = [0u8; 16];
    let res = {
        let (path, _rest) = StandardPathView::try_from_mut_slice(&mut buf).unwrap();
        let lookup = |_id: u16| -> Option<AsRoutingInterfaceState> { None };
        StdRoutingLogic::handle_standard_path(IsdAsn(kani::any()), path, ingress_if, ScionNetworkTime(now), &key, &lookup, true)
    };
    let h1 = spec_hop(&before[hop_off(1, 1)..hop_off(1, 1) + 12]);
    let i0 = spec_info(&before[info_off(0)..info_off(0) + 8]);
    if res.is_ok() && ingress_if != 0 {
        assert!(
            h1.travel_ingress(&i0) == ingress_if,
            "C13.hop_ingress_owner: packet accepted on an interface that is not the ingress named by its current hop field"
        );
    }
    kani::cover!(matches!(res, Ok(AsRoutingAction::Local(LocalAsRoutingAction::ForwardLocal))) && ingress_if != 0, "accepted from outside");
    kani::cover!(matches!(res, Err(StandardRoutingError::InvalidIngressInterface { .. })), "refused: wrong interface");
    kani::cover!(res.is_ok() && ingress_if == 0, "accepted from the local network");
}

/// A SCION-valid crossover (shortcut or regular) must be forwarded: the packet arrives on the
/// ingress of the old segment's last hop field, both hop fields are inside their validity window,
/// the link-type pair is allowed, no router alerts, the egress link exists and is up. Nothing is
/// required of the new hop field's ingress interface — it belongs to the other segment.
#[kani::proof]
#[kani::unwind(14)]
fn c13_step_xover_accept() {
    let seg = [2u8, 2, 0];
    let before: [u8; 68] = {
        let mut b = any_path::<68>(seg);
        b[0] = 1; // CurrINF = 0, CurrHF = 1: last hop field of segment 0
        // bytes this step does not read are concrete zeros: hop fields 0 and 3, the (ignored) MACs
        let mut i = 0;
        while i < 12 {
            b[hop_off(2, 0) + i] = 0;
            b[hop_off(2, 3) + i] = 0;
            i += 1;
        }
        let mut i = 6;
        while i < 12 {
            b[hop_off(2, 1) + i] = 0;
            b[hop_off(2, 2) + i] = 0;
            i += 1;
        }
        b
    };
    let mut buf = before;
    let h1 = spec_hop(&before[hop_off(2, 1)..hop_off(2, 1) + 12]);
    let i0 = spec_info(&before[info_off(0)..info_off(0) + 8]);
    let h2 = spec_hop(&before[hop_off(2, 2)..hop_off(2, 2) + 12]);
    let i1 = spec_info(&before[info_off(1)..info_off(1) + 8]);
    let ingress_if: u16 = kani::any();
    let now: u32 = kani::any();
    let key: ForwardingKey = [0u8; 16];
    let s_in = any_iface();
    let s_out = any_iface();
    let if_in = h1.travel_ingress(&i0);
    let if_out = h2.travel_egress(&i1);

    // the SCION-valid crossover
    kani::assume(ingress_if != 0 && ingress_if == if_in);
    kani::assume(if_out != if_in && if_out != 0);
    kani::assume(h1.time_ok(&i0, now) && h2.time_ok(&i1, now));
    kani::assume(!h1.travel_egress_alert(&i0) && !h1.travel_ingress_alert(&i0));
    kani::assume(!h2.travel_ingress_alert(&i1) && !h2.travel_egress_alert(&i1));
    let (lin, lout, up) = match (&s_in, &s_out) {
        (Some(a), Some(b)) => (a.link_type, b.link_type, b.is_up),
        _ => (LT::LinkToParent, LT::LinkToParent, false),
    };
    kani::assume(s_in.is_some() && s_out.is_some() && up);
    kani::assume(spec_segment_change_allowed(lin, lout));

    let res = {
        let (path, _rest) = StandardPathView::try_from_mut_slice(&mut buf).unwrap();
        let lookup = |id: u16| if id == if_in { s_in.clone() } else if id == if_out { s_out.clone() } else { None };
        StdRoutingLogic::handle_standard_path(IsdAsn(kani::any()), path, ingress_if, ScionNetworkTime(now), &key, &lookup, true)
    };
    assert!(
        matches!(res, Ok(AsRoutingAction::ForwardNextHop { egress_interface_id }) if egress_interface_id == if_out),
        "C13.xover_accept: valid crossover not forwarded over the new segment's egress"
    );
    kani::cover!(h2.travel_ingress(&i1) != 0 && h2.travel_ingress(&i1) != ingress_if, "shortcut: new hop field names the parent-side ingress");
    kani::cover!(h2.travel_ingress(&i1) == 0, "regular crossover at a segment origin");
}
/// Soundness companion of `c13_step_xover_accept`: same crossover shape, arbitrary link states.
#[kani::proof]
#[kani::unwind(14)]
fn c13_step_xover_sound() {
    let seg = [2u8, 2, 0];
    let before: [u8; 68] = {
        let mut b = any_path::<68>(seg);
        b[0] = 1; // CurrINF = 0, CurrHF = 1: last hop field of segment 0
        // bytes this step does not read are concrete zeros: hop fields 0 and 3, the (ignored) MACs
        let mut i = 0;
        while i < 12 {
            b[hop_off(2, 0) + i] = 0;
            b[hop_off(2, 3) + i] = 0;
            i += 1;
        }
        let mut i = 6;
        while i < 12 {
            b[hop_off(2, 1) + i] = 0;
            b[hop_off(2, 2) + i] = 0;
            i += 1;
        }
        b
    };
    let mut buf = before;
    let h1 = spec_hop(&before[hop_off(2, 1)..hop_off(2, 1) + 12]);
    let i0 = spec_info(&before[info_off(0)..info_off(0) + 8]);
    let h2 = spec_hop(&before[hop_off(2, 2)..hop_off(2, 2) + 12]);
    let i1 = spec_info(&before[info_off(1)..info_off(1) + 8]);
    let ingress_if: u16 = kani::any();
    let now: u32 = kani::any();
    let key: ForwardingKey = [0u8; 16];
    let s_in = any_iface();
    let s_out = any_iface();
    let if_in = h1.travel_ingress(&i0);
    let if_out = h2.travel_egress(&i1);

    // the SCION-valid crossover
    kani::assume(ingress_if != 0 && ingress_if == if_in);
    kani::assume(if_out != if_in && if_out != 0);
    kani::assume(h1.time_ok(&i0, now) && h2.time_ok(&i1, now));
    kani::assume(!h1.travel_egress_alert(&i0) && !h1.travel_ingress_alert(&i0));
    kani::assume(!h2.travel_ingress_alert(&i1) && !h2.travel_egress_alert(&i1));
    let (lin, lout, up) = match (&s_in, &s_out) {
        (Some(a), Some(b)) => (a.link_type, b.link_type, b.is_up),
        _ => (LT::LinkToParent, LT::LinkToParent, false),
    };

    let res = {
        let (path, _rest) = StandardPathView::try_from_mut_slice(&mut buf).unwrap();
        let lookup = |id: u16| if id == if_in { s_in.clone() } else if id == if_out { s_out.clone() } else { None };
        StdRoutingLogic::handle_standard_path(IsdAsn(kani::any()), path, ingress_if, ScionNetworkTime(now), &key, &lookup, true)
    };
    // soundness at a crossover (added after seeded change C13-2): a forwarding verdict implies that the
    // egress is the new segment's travel-direction egress, that its link exists AND IS UP, that the
    // arrival link exists and that the link-type pair is in the SCION table
    if let Ok(AsRoutingAction::ForwardNextHop { egress_interface_id }) = &res {
        assert!(*egress_interface_id == if_out, "C13.xover_sound: forwarded over an interface that is not the new segment's egress");
        assert!(s_in.is_some() && s_out.is_some(), "C13.xover_sound: forwarded although a looked-up interface does not exist");
        assert!(up, "C13.xover_sound: forwarded over a link that is down");
        assert!(spec_segment_change_allowed(lin, lout), "C13.xover_sound: forwarded across a link-type pair outside the SCION table");
    }
    kani::cover!(matches!(res, Ok(AsRoutingAction::ForwardNextHop { .. })), "crossover forwarded");
    kani::cover!(res.is_err() && s_out.is_some() && !up, "refused because the egress link is down");
    kani::cover!(h2.travel_ingress(&i1) != 0 && h2.travel_ingress(&i1) != ingress_if, "shortcut: new hop field names the parent-side ingress");
    kani::cover!(h2.travel_ingress(&i1) == 0, "regular crossover at a segment origin");
}
use crate::network::scion::routing::AsRoutingLinkType as LT;
