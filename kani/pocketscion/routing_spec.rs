//! NOTE: NOT registered in C13.py — kani-compiler 0.68 panics while compiling these harnesses
//! (intrinsics.rs:243, `output.kind() == Int(I32)`); kept for a later tool version / investigation.
//! C13 — `SpecRoutingLogic::route` (routing/spec.rs): delivery only in the destination AS,
//! unsupported path types are dropped. Hooked at the end of `routing/spec.rs`.
//!
//! Class B: packets have a fixed size (36 B header without path / 72 B with a 36 B path), version 0,
//! IPv4 host addresses (DT/DL = ST/SL = 0), HdrLen consistent with the buffer, no payload; every
//! other byte is symbolic. Field offsets below are from the SCION common/address header layout:
//! byte 5 HdrLen (4-byte units), bytes 6..8 PayloadLen, byte 8 PathType, byte 9 DT|DL|ST|SL,
//! bytes 12..20 DstIA, bytes 20..28 SrcIA, path at 36.

use super::*;
use crate::network::scion::routing::AsRoutingLinkType;

fn any_pkt<const N: usize>(path_type: u8) -> [u8; N] {
    let mut b: [u8; N] = kani::any();
    b[0] &= 0x0F; // version 0
    b[5] = (N / 4) as u8;
    b[6] = 0;
    b[7] = 0;
    b[8] = path_type;
    b[9] = 0;
    b
}
fn spec_dst_ia(b: &[u8]) -> u64 {
    let mut v = 0u64;
    let mut i = 12;
    while i < 20 {
        v = (v << 8) | b[i] as u64;
        i += 1;
    }
    v
}
fn any_iface() -> Option<AsRoutingInterfaceState> {
    if kani::any() {
        let link_type = match kani::any::<u8>() & 3 {
            0 => AsRoutingLinkType::LinkToCore,
            1 => AsRoutingLinkType::LinkToParent,
            2 => AsRoutingLinkType::LinkToChild,
            _ => AsRoutingLinkType::LinkToPeer,
        };
        Some(AsRoutingInterfaceState { link_type, is_up: kani::any() })
    } else {
        None
    }
}
fn is_non_local_delivery(e: &ScmpErrorMessage) -> bool {
    matches!(e, ScmpErrorMessage::ParameterProblem(p) if p.code == ScmpParameterProblemCode::NonLocalDelivery)
}

/// Path types other than Empty(0) / SCION(1) / OneHop(2): dropped silently, packet untouched.
#[kani::proof]
#[kani::unwind(10)]
fn c13_route_unsupported_drop() {
    let pt: u8 = kani::any();
    kani::assume(pt > 2);
    let before = any_pkt::<48>(pt);
    let mut buf = before;
    let local = IsdAsn(kani::any());
    let key: ForwardingKey = kani::any();
    let s = any_iface();
    let parsed = ScionRawPacketView::try_from_mut_slice(&mut buf);
    kani::cover!(parsed.is_ok(), "packet with unsupported path type parses");
    if let Ok((pkt, _rest)) = parsed {
        let res = SpecRoutingLogic::route(local, pkt, kani::any(), ScionNetworkTime(kani::any()), &key, |_| s.clone(), kani::any());
        assert!(matches!(res, Ok(AsRoutingAction::Drop)), "C13.route_unsupported: unsupported path type not dropped");
    }
    let k: usize = kani::any();
    kani::assume(k < 48);
    assert!(buf[k] == before[k], "C13.route_unsupported: packet modified");
}

/// Empty path (AS-local traffic): delivered iff the destination IA is the local AS.
#[kani::proof]
#[kani::unwind(10)]
fn c13_route_empty_local_only() {
    let before = any_pkt::<36>(0);
    let mut buf = before;
    let local = IsdAsn(kani::any());
    let key: ForwardingKey = kani::any();
    let (pkt, _rest) = ScionRawPacketView::try_from_mut_slice(&mut buf).unwrap();
    let res = SpecRoutingLogic::route(local, pkt, kani::any(), ScionNetworkTime(kani::any()), &key, |_| None, kani::any());
    let dst_is_local = spec_dst_ia(&before) == local.0;
    match &res {
        Ok(AsRoutingAction::Local(LocalAsRoutingAction::ForwardLocal)) => {
            assert!(dst_is_local, "C13.route_local: delivered in an AS that is not the destination");
        }
        Err(e) => {
            assert!(!dst_is_local && is_non_local_delivery(e), "C13.route_local: wrong error for empty path");
        }
        Ok(_) => assert!(false, "C13.route_local: empty path neither delivered nor refused"),
    }
    kani::cover!(res.is_ok(), "delivered");
    kani::cover!(res.is_err(), "non-local delivery refused");
}

/// Standard path at its last hop field (1 segment x 2 hop fields, CurrHF = 1, MACs ignored):
/// a ForwardLocal verdict implies DstIA == local AS; otherwise NonLocalDelivery is reported.
#[kani::proof]
#[kani::unwind(10)]
fn c13_route_std_local_only() {
    let before = {
        let mut b = any_pkt::<72>(1);
        b[36] = 1; // CurrINF 0, CurrHF 1
        b[37] &= 0xFC; // Seg0Len = 2
        b[38] = 0x20;
        b[39] = 0;
        b
    };
    let mut buf = before;
    let local = IsdAsn(kani::any());
    let key: ForwardingKey = kani::any();
    let s = any_iface();
    let (pkt, _rest) = ScionRawPacketView::try_from_mut_slice(&mut buf).unwrap();
    let res = SpecRoutingLogic::route(local, pkt, kani::any(), ScionNetworkTime(kani::any()), &key, |_| s.clone(), true);
    let dst_is_local = spec_dst_ia(&before) == local.0;
    if let Ok(AsRoutingAction::Local(LocalAsRoutingAction::ForwardLocal)) = &res {
        assert!(dst_is_local, "C13.route_local: delivered in an AS that is not the destination");
    }
    if let Err(e) = &res {
        if is_non_local_delivery(e) {
            assert!(!dst_is_local, "C13.route_local: NonLocalDelivery reported in the destination AS");
        }
    }
    assert!(!matches!(res, Ok(AsRoutingAction::ForwardNextHop { .. })), "C13.step_local: forwarded at the last hop field");
    kani::cover!(matches!(res, Ok(AsRoutingAction::Local(LocalAsRoutingAction::ForwardLocal))), "delivered");
    kani::cover!(matches!(&res, Err(e) if is_non_local_delivery(e)), "non-local delivery refused");
}
