//! C13 — contracts for the per-hop validator and the segment-change table of the simulated
//! SCION dataplane (`routing/spec/standard.rs`). Hooked as a child module at the end of
//! `standard.rs`, so it sees the private `StandardValidator`.
//!
//! The specifications below are written from the SCION dataplane rules (header layout of
//! draft-dekater-scion-dataplane §2.4, forwarding rules of the reference border router), NOT from
//! the code: every field is decoded from the raw bytes by the `spec_*` functions of this file.
//!
//! Orientation used by the crate ("link-to"): `AsRoutingLinkType::LinkToX` on interface `i` of the
//! local AS means "the neighbour reached through `i` is my X" (LinkToChild = neighbour is a child
//! of the local AS, LinkToParent = neighbour is a parent, LinkToCore = core link between two core
//! ASes, LinkToPeer = peering link). A packet that ARRIVED over a LinkToChild interface is
//! therefore travelling UP (child -> parent), one that LEAVES over a LinkToChild interface is
//! travelling DOWN.
//!
//! Stub: `calculate_hop_mac` (AES-CMAC) is replaced by `stub_hop_mac`, a cheap deterministic mixing
//! function of all six inputs. Assumption stated in C13.py: the obligations only need the MAC to
//! be a deterministic function of (beta, timestamp, exp_time, cons_ingress, cons_egress, key).

use super::*;
use crate::network::scion::routing::AsRoutingLinkType as LT;

// ---------------------------------------------------------------------------------------------
// Independent decoders (SCION header layout)
// ---------------------------------------------------------------------------------------------

/// Info field: | r r r r r r P C | RSV | SegID(16) | Timestamp(32) |
pub(super) struct SpecInfo {
    pub cons_dir: bool,
    pub peering: bool,
    pub seg_id: u16,
    pub timestamp: u32,
}
pub(super) fn spec_info(b: &[u8]) -> SpecInfo {
    SpecInfo {
        cons_dir: b[0] & 0x01 != 0,
        peering: b[0] & 0x02 != 0,
        seg_id: ((b[2] as u16) << 8) | b[3] as u16,
        timestamp: ((b[4] as u32) << 24) | ((b[5] as u32) << 16) | ((b[6] as u32) << 8) | b[7] as u32,
    }
}

/// Hop field: | r r r r r r I E | ExpTime | ConsIngress(16) | ConsEgress(16) | MAC(48) |
pub(super) struct SpecHop {
    pub cons_ingress_alert: bool,
    pub cons_egress_alert: bool,
    pub exp_time: u8,
    pub cons_ingress: u16,
    pub cons_egress: u16,
    pub mac: [u8; 6],
}
pub(super) fn spec_hop(b: &[u8]) -> SpecHop {
    SpecHop {
        cons_egress_alert: b[0] & 0x01 != 0,
        cons_ingress_alert: b[0] & 0x02 != 0,
        exp_time: b[1],
        cons_ingress: ((b[2] as u16) << 8) | b[3] as u16,
        cons_egress: ((b[4] as u16) << 8) | b[5] as u16,
        mac: [b[6], b[7], b[8], b[9], b[10], b[11]],
    }
}
impl SpecHop {
    /// interface through which a packet travelling along the segment ENTERS the AS
    pub fn travel_ingress(&self, i: &SpecInfo) -> u16 {
        if i.cons_dir { self.cons_ingress } else { self.cons_egress }
    }
    /// interface through which a packet travelling along the segment LEAVES the AS
    pub fn travel_egress(&self, i: &SpecInfo) -> u16 {
        if i.cons_dir { self.cons_egress } else { self.cons_ingress }
    }
    pub fn travel_ingress_alert(&self, i: &SpecInfo) -> bool {
        if i.cons_dir { self.cons_ingress_alert } else { self.cons_egress_alert }
    }
    pub fn travel_egress_alert(&self, i: &SpecInfo) -> bool {
        if i.cons_dir { self.cons_egress_alert } else { self.cons_ingress_alert }
    }
    /// `timestamp <= now <= timestamp + (1+ExpTime) * (24h/256)`; 24h/256 = 337.5 s, `now` is in
    /// whole seconds so the upper bound is the floor. Computed in u64 (no wrap, no saturation).
    pub fn time_ok(&self, i: &SpecInfo, now: u32) -> bool {
        let n = self.exp_time as u64 + 1;
        let lifetime = (n * 675) / 2;
        (i.timestamp as u64) <= now as u64 && (now as u64) <= i.timestamp as u64 + lifetime
    }
    pub fn mac_ok(&self, beta: u16, i: &SpecInfo, key: &ForwardingKey) -> bool {
        let m = stub_hop_mac(beta, i.timestamp, self.exp_time, self.cons_ingress, self.cons_egress, key);
        m[0] == self.mac[0]
            && m[1] == self.mac[1]
            && m[2] == self.mac[2]
            && m[3] == self.mac[3]
            && m[4] == self.mac[4]
            && m[5] == self.mac[5]
    }
}

/// Stand-in for AES-CMAC: deterministic, depends on every input.
pub(super) fn stub_hop_mac(
    beta: u16,
    timestamp: u32,
    exp_time: u8,
    cons_ingress: u16,
    cons_egress: u16,
    key: &ForwardingKey,
) -> [u8; 6] {
    let b = beta.to_be_bytes();
    let t = timestamp.to_be_bytes();
    let i = cons_ingress.to_be_bytes();
    let e = cons_egress.to_be_bytes();
    [
        b[0] ^ t[0] ^ key[0] ^ key[6] ^ key[12],
        b[1] ^ t[1] ^ key[1] ^ key[7] ^ key[13],
        exp_time ^ t[2] ^ key[2] ^ key[8] ^ key[14],
        i[0] ^ t[3] ^ key[3] ^ key[9] ^ key[15],
        i[1] ^ e[0] ^ key[4] ^ key[10],
        e[1] ^ key[5] ^ key[11],
    ]
}

// ---------------------------------------------------------------------------------------------
// Segment-change table, written from the SCION rules
// ---------------------------------------------------------------------------------------------

#[derive(Clone, Copy, PartialEq, Eq)]
pub(super) enum SegKind {
    Up,
    Core,
    Down,
    Peer,
}

/// Kind of the segment the packet was on, from the link it ARRIVED over.
pub(super) fn seg_kind_of_arrival(l: LT) -> SegKind {
    match l {
        LT::LinkToChild => SegKind::Up,    // came from a child: it was climbing
        LT::LinkToCore => SegKind::Core,   // came over a core link
        LT::LinkToParent => SegKind::Down, // came from a parent: it was descending
        LT::LinkToPeer => SegKind::Peer,   // came over a peering link
    }
}
/// Kind of the segment the packet continues on, from the link it LEAVES over.
pub(super) fn seg_kind_of_departure(l: LT) -> SegKind {
    match l {
        LT::LinkToParent => SegKind::Up,
        LT::LinkToCore => SegKind::Core,
        LT::LinkToChild => SegKind::Down,
        LT::LinkToPeer => SegKind::Peer,
    }
}
/// SCION segment combination rules: up-core, up-down (incl. shortcut), core-down, and the two
/// halves of a peering path (up-peer, peer-down). Everything else is a valley (anything after
/// going down; up after core or peer), a core loop (core-core), a splice (up-up, down-down) or a
/// chain of special links (peer-peer, peer-core, core-peer).
pub(super) fn spec_segment_change_allowed(arrived_over: LT, leaves_over: LT) -> bool {
    use SegKind::*;
    matches!(
        (seg_kind_of_arrival(arrived_over), seg_kind_of_departure(leaves_over)),
        (Up, Core) | (Up, Down) | (Core, Down) | (Up, Peer) | (Peer, Down)
    )
}

// ---------------------------------------------------------------------------------------------
// Symbolic inputs
// ---------------------------------------------------------------------------------------------

pub(super) fn any_link_type() -> LT {
    match kani::any::<u8>() & 3 {
        0 => LT::LinkToCore,
        1 => LT::LinkToParent,
        2 => LT::LinkToChild,
        _ => LT::LinkToPeer,
    }
}
pub(super) fn any_iface() -> Option<AsRoutingInterfaceState> {
    if kani::any() {
        Some(AsRoutingInterfaceState {
            link_type: any_link_type(),
            is_up: kani::any(),
        })
    } else {
        None
    }
}
fn hop_view(b: &[u8; 12]) -> &HopFieldView {
    HopFieldView::try_from_slice(b).unwrap().0
}
fn info_view(b: &[u8; 8]) -> &InfoFieldView {
    InfoFieldView::try_from_slice(b).unwrap().0
}

// ---------------------------------------------------------------------------------------------
// (1) validate_segment_change  [class P: loop-free, all inputs symbolic]
// ---------------------------------------------------------------------------------------------

#[kani::proof]
fn c13_segchange_table() {
    let cur_hop_b: [u8; 12] = kani::any();
    let cur_info_b: [u8; 8] = kani::any();
    let nxt_hop_b: [u8; 12] = kani::any();
    let nxt_info_b: [u8; 8] = kani::any();
    let (ch, ci) = (spec_hop(&cur_hop_b), spec_info(&cur_info_b));
    let (nh, ni) = (spec_hop(&nxt_hop_b), spec_info(&nxt_info_b));

    // the two interfaces of the LOCAL AS involved in the change: where the packet came in (owned
    // by the last hop field of the old segment) and where it leaves (owned by the first hop field
    // of the new segment)
    let if_in = ch.travel_ingress(&ci);
    let if_out = nh.travel_egress(&ni);

    // symbolic topology answers: one for if_in, one for if_out, one for every other id
    let s_in = any_iface();
    let s_out = any_iface();
    let s_other = any_iface();
    let lookup = |id: u16| {
        if id == if_in {
            s_in.clone()
        } else if id == if_out {
            s_out.clone()
        } else {
            s_other.clone()
        }
    };
    let eff_out = if if_out == if_in { s_in.clone() } else { s_out.clone() };

    let key: ForwardingKey = kani::any();
    let v = StandardValidator {
        ingress: kani::any(),
        now: ScionNetworkTime(kani::any()),
        interface_link_type_lookup: &lookup,
        current_interface_id: kani::any(),
        arrival_hop_index: kani::any(),
        forwarding_key: &key,
        ignore_macs: kani::any(),
    };
    let hop_index: usize = kani::any();
    let res = v.validate_segment_change(
        hop_index,
        hop_view(&cur_hop_b),
        info_view(&cur_info_b),
        hop_view(&nxt_hop_b),
        info_view(&nxt_info_b),
    );

    let alerts = ch.travel_egress_alert(&ci) || nh.travel_ingress_alert(&ni);
    let table = match (&s_in, &eff_out) {
        (Some(a), Some(b)) => Some(spec_segment_change_allowed(a.link_type, b.link_type)),
        _ => None,
    };

    // soundness: no valley / core loop / splice is ever accepted, and both interfaces exist
    if res.is_ok() {
        assert!(table == Some(true), "C13.segchange_sound: accepted pair is not in the SCION table");
    }
    // completeness (the crate is additionally strict about router alerts on the two hop fields)
    if table == Some(true) && !alerts {
        assert!(res.is_ok(), "C13.segchange_complete: allowed pair rejected");
    }
    // error classes
    match &res {
        Ok(()) => {}
        Err(StandardRoutingError::InvalidSegmentChange { hop_index: h }) => {
            assert!(table == Some(false), "C13.segchange_errclass: InvalidSegmentChange on an allowed or unknown pair");
            assert!(*h == hop_index, "C13.segchange_errclass: hop index");
        }
        Err(StandardRoutingError::UnknownIngressInterface { if_id, .. }) => {
            assert!(s_in.is_none() && *if_id == if_in, "C13.segchange_errclass: UnknownIngressInterface");
        }
        Err(StandardRoutingError::UnknownEgressInterface { if_id, .. }) => {
            assert!(eff_out.is_none() && *if_id == if_out, "C13.segchange_errclass: UnknownEgressInterface");
        }
        Err(StandardRoutingError::InvalidScmpAlert { .. }) => {
            assert!(alerts, "C13.segchange_errclass: InvalidScmpAlert without alert");
        }
        Err(_) => assert!(false, "C13.segchange_errclass: unexpected error class"),
    }

    kani::cover!(res.is_ok(), "accepted");
    kani::cover!(matches!(res, Err(StandardRoutingError::InvalidSegmentChange { .. })), "refused by table");
    kani::cover!(matches!(res, Err(StandardRoutingError::UnknownIngressInterface { .. })), "unknown in");
    kani::cover!(matches!(res, Err(StandardRoutingError::UnknownEgressInterface { .. })), "unknown out");
    kani::cover!(matches!(res, Err(StandardRoutingError::InvalidScmpAlert { .. })), "alert");
    kani::cover!(res.is_ok() && if_in == if_out, "accepted with if_in == if_out");
    kani::cover!(res.is_ok() && !ci.cons_dir && ni.cons_dir, "accepted up->down orientation");
}

/// The table itself, enumerated: exactly 5 of the 16 (arrival, departure) pairs are accepted and
/// they are the ones named in the property (guards the spec function against being vacuous).
#[kani::proof]
fn c13_segchange_spec_table_shape() {
    let a = any_link_type();
    let b = any_link_type();
    let allowed = spec_segment_change_allowed(a, b);
    let listed = matches!(
        (a, b),
        (LT::LinkToCore, LT::LinkToChild)
            | (LT::LinkToChild, LT::LinkToCore)
            | (LT::LinkToChild, LT::LinkToChild)
            | (LT::LinkToChild, LT::LinkToPeer)
            | (LT::LinkToPeer, LT::LinkToChild)
    );
    assert!(allowed == listed, "C13.segchange_spec: rule-derived table differs from DESIGN list");
    // no valley: nothing is allowed after arriving from a parent, nothing may leave to a parent
    if a == LT::LinkToParent || b == LT::LinkToParent {
        assert!(!allowed, "C13.segchange_spec: valley");
    }
    if a == LT::LinkToCore && b == LT::LinkToCore {
        assert!(!allowed, "C13.segchange_spec: core loop");
    }
    kani::cover!(allowed, "some pair allowed");
    kani::cover!(!allowed, "some pair refused");
}

// ---------------------------------------------------------------------------------------------
// (2) validate_hop  [class P: loop-free apart from the 6-byte MAC compare]
// ---------------------------------------------------------------------------------------------

fn validate_hop_setup(
    ingress: bool,
) -> (Result<(), StandardRoutingError>, SpecHop, SpecInfo, u16, u32, bool, ForwardingKey, usize) {
    let hop_b: [u8; 12] = kani::any();
    let info_b: [u8; 8] = kani::any();
    let key: ForwardingKey = kani::any();
    let cur_if: u16 = kani::any();
    let now: u32 = kani::any();
    let ignore_macs: bool = kani::any();
    let lookup = |_id: u16| -> Option<AsRoutingInterfaceState> { None };
    let v = StandardValidator {
        ingress,
        now: ScionNetworkTime(now),
        interface_link_type_lookup: &lookup,
        current_interface_id: cur_if,
        // which hop field of the step the packet arrived with: arbitrary (the ingress-owner clause is
        // checked at the step level in routing_step.rs)
        arrival_hop_index: kani::any(),
        forwarding_key: &key,
        ignore_macs,
    };
    let hop_index: usize = kani::any();
    let res = v.validate_hop(hop_index, hop_view(&hop_b), info_view(&info_b), kani::any(), kani::any());
    (res, spec_hop(&hop_b), spec_info(&info_b), cur_if, now, ignore_macs, key, hop_index)
}

/// Egress mode: the hop field processed owns the egress interface. Ok <=> egress matches /\ time
/// window /\ MAC.
#[kani::proof]
#[kani::unwind(8)]
#[kani::stub(sciparse::dataplane_path::standard::mac::algo::calculate_hop_mac, stub_hop_mac)]
fn c13_validate_hop_egress() {
    let (res, h, i, cur_if, now, ignore_macs, key, hop_index) = validate_hop_setup(false);
    let iface_ok = h.travel_egress(&i) == cur_if;
    let time_ok = h.time_ok(&i, now);
    let mac_ok = ignore_macs || h.mac_ok(i.seg_id, &i, &key);

    assert!(res.is_ok() == (iface_ok && time_ok && mac_ok), "C13.hop_egress_iff: Ok <=> iface /\\ time /\\ mac");
    match &res {
        Ok(()) => {}
        Err(StandardRoutingError::InvalidEgressInterface { hop_index: hi, expected, found, .. }) => {
            assert!(!iface_ok && *hi == hop_index && *expected == cur_if && *found == h.travel_egress(&i),
                "C13.hop_errclass: InvalidEgressInterface");
        }
        Err(StandardRoutingError::FutureTimestamp { .. }) => {
            assert!(i.timestamp > now, "C13.hop_errclass: FutureTimestamp");
        }
        Err(StandardRoutingError::SegmentExpired { .. }) => {
            assert!(!time_ok && i.timestamp <= now, "C13.hop_errclass: SegmentExpired");
        }
        Err(StandardRoutingError::InvalidMacError { .. }) => {
            assert!(!mac_ok, "C13.hop_errclass: InvalidMacError");
        }
        Err(_) => assert!(false, "C13.hop_errclass: unexpected error class"),
    }
    kani::cover!(res.is_ok() && !ignore_macs, "ok with mac");
    kani::cover!(res.is_ok() && !i.cons_dir, "ok against construction direction");
    kani::cover!(res.is_ok() && now as u64 == i.timestamp as u64 + ((h.exp_time as u64 + 1) * 675) / 2, "ok at expiry");
    kani::cover!(matches!(res, Err(StandardRoutingError::InvalidEgressInterface { .. })), "iface");
    kani::cover!(matches!(res, Err(StandardRoutingError::FutureTimestamp { .. })), "future");
    kani::cover!(matches!(res, Err(StandardRoutingError::SegmentExpired { .. })), "expired");
    kani::cover!(matches!(res, Err(StandardRoutingError::InvalidMacError { .. })), "mac");
}

/// Ingress mode, obligations that do not depend on WHICH hop field of the step is validated (the
/// validator is also run on the second hop field of a crossover, whose ingress interface belongs
/// to the other segment — the "owns the ingress" clause is checked in routing_step.rs through
/// `standard_path_ingress`, where the arrival hop field is identifiable):
///   Ok => time window /\ MAC;
///   (arrived internally \/ travel ingress == arriving interface) /\ time /\ MAC => Ok;
///   InvalidIngressInterface => arrived externally /\ travel ingress != arriving interface.
#[kani::proof]
#[kani::unwind(8)]
#[kani::stub(sciparse::dataplane_path::standard::mac::algo::calculate_hop_mac, stub_hop_mac)]
fn c13_validate_hop_ingress() {
    let (res, h, i, cur_if, now, ignore_macs, key, _hop_index) = validate_hop_setup(true);
    let iface_match = cur_if == 0 || h.travel_ingress(&i) == cur_if;
    let time_ok = h.time_ok(&i, now);
    let mac_ok = ignore_macs || h.mac_ok(i.seg_id, &i, &key);

    if res.is_ok() {
        assert!(time_ok, "C13.hop_ingress_sound: accepted outside timestamp..expiry");
        assert!(mac_ok, "C13.hop_ingress_sound: accepted with wrong MAC");
    }
    if iface_match && time_ok && mac_ok {
        assert!(res.is_ok(), "C13.hop_ingress_complete: matching authentic unexpired hop refused");
    }
    match &res {
        Ok(()) => {}
        Err(StandardRoutingError::InvalidIngressInterface { expected, found, .. }) => {
            assert!(!iface_match && *expected == cur_if && *found == h.travel_ingress(&i),
                "C13.hop_errclass: InvalidIngressInterface");
        }
        Err(StandardRoutingError::FutureTimestamp { .. }) => {
            assert!(i.timestamp > now, "C13.hop_errclass: FutureTimestamp");
        }
        Err(StandardRoutingError::SegmentExpired { .. }) => {
            assert!(!time_ok && i.timestamp <= now, "C13.hop_errclass: SegmentExpired");
        }
        Err(StandardRoutingError::InvalidMacError { .. }) => {
            assert!(!mac_ok, "C13.hop_errclass: InvalidMacError");
        }
        Err(_) => assert!(false, "C13.hop_errclass: unexpected error class"),
    }
    kani::cover!(res.is_ok() && !ignore_macs && cur_if != 0, "ok external with mac");
    kani::cover!(res.is_ok() && cur_if == 0, "ok internal");
    kani::cover!(matches!(res, Err(StandardRoutingError::FutureTimestamp { .. })), "future");
    kani::cover!(matches!(res, Err(StandardRoutingError::SegmentExpired { .. })), "expired");
    kani::cover!(matches!(res, Err(StandardRoutingError::InvalidMacError { .. })), "mac");
}
