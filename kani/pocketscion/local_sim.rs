// Contract module for crates/pocketscion/src/network/local/simulator.rs (property C14, clause
// "no SCMP error or malformed SCMP packet ever triggers a reply", simulator side).
// Child module of `simulator`: sees the private fn `maybe_create_scmp_reply`.
//
//   C14.noreply-error      reply is Some and the offending packet's next header is SCMP (202)
//                          => its SCMP type byte is an informational type (>= 128)
//   C14.noreply-malformed  reply is Some and next header is SCMP => the packet classifies
//                          (a truncated / malformed SCMP message never triggers a reply)
// for every packet of <= 64 bytes accepted by the raw packet view (all bytes and the length symbolic).
// (Added after seeded change C14-2.)
#![allow(dead_code)]

use std::net::{IpAddr, Ipv4Addr, SocketAddr};

use super::*;

const SCMP_NEXT_HDR: u8 = 202;

#[kani::proof]
#[kani::unwind(18)]
fn c14_sim_no_reply_to_scmp_error_or_malformed_n64() {
    const N: usize = 64;
    let buf: [u8; N] = kani::any();
    let len: usize = kani::any();
    kani::assume(len <= N);
    let Ok((view, _)) = ScionRawPacketView::try_from_slice(&buf[..len]) else {
        return;
    };
    let router = ScionRouter::new(Vec::new(), SocketAddr::new(IpAddr::V4(Ipv4Addr::new(10, 0, 0, 1)), 30000));
    let scmp: ScmpMessage =
        ScmpDestinationUnreachable::new(ScmpDestinationUnreachableCode::AddressUnreachable, Vec::new()).into();
    let res = maybe_create_scmp_reply(IsdAsn(kani::any()), &router, scmp, view);
    let replied = matches!(res, Ok(Some(_)));

    // wire format: byte 4 of the SCION common header is NextHdr; the upper-layer message starts
    // after HdrLen*4 bytes
    let next_hdr = buf[4];
    let hdr_len = buf[5] as usize * 4;
    if replied && next_hdr == SCMP_NEXT_HDR {
        assert!(hdr_len < len, "C14.noreply-malformed: reply to an SCMP packet without any SCMP byte");
        assert!(buf[hdr_len] >= 128, "C14.noreply-error: reply triggered by an SCMP error message");
        assert!(view.try_classify().is_ok(), "C14.noreply-malformed: reply triggered by a malformed SCMP packet");
    }
    kani::cover!(replied && next_hdr == SCMP_NEXT_HDR, "reply to an SCMP informational message");
    kani::cover!(replied && next_hdr != SCMP_NEXT_HDR, "reply to a non-SCMP packet");
    kani::cover!(!replied && next_hdr == SCMP_NEXT_HDR && hdr_len < len && buf[hdr_len] < 128, "SCMP error ignored");
}
