// Contract module for crates/libs/anapaya-edge-tun/src/fragmenting.rs (property C17).
// Included from the real crate by `#[cfg(kani)] #[path = ...] mod verif_fragmenting;`, so it
// is a child of `fragmenting` and sees the private fields of `DefragQueue`.
//
// Contract structure (see DESIGN.md §3/C17):
//   wf(q)          representation invariant of a non-idle reassembly queue
//   covered(q,k,i) position i = k*w + r (r < w) of the assembly buffer was written by an accepted
//                  frame of the packet that is currently being reassembled (derived from recv_mask
//                  and the last-frame extent, never stored)
//   R(i)           ghost: "assembly_buffer[i] is a byte that an accepted frame of the current
//                  packet carried at packet position i".  Coupling invariant: covered ==> R.
// Each step is proved from an ARBITRARY wf state (all scalar fields symbolic) for an ARBITRARY
// frame and an ARBITRARY byte position / mask bit, so the universally quantified statements hold
// by symbolic choice and the history statement by induction over accepted frames.
//
// The specification side is written without division (positions are given as k*w + r): every
// `/` and `%` in the solver query then comes from the code under contract. Symbolic 64-bit
// division is what dominates the solver time here, hence also the case split into one harness
// per (frame kind, pre-state shape); the union of the cases is every state and every frame.
//
// Byte contents are not symbolic (two symbolic 64 KiB arrays + memcpy of symbolic length exhaust
// 60 GB in CBMC): the ghost R is updated from the contract of the single write in `ingest_frame`
// (`assembly_buffer[off..off+len].copy_from_slice(fragment)`, std), see units/C17.py assumptions.
#![allow(dead_code)]

use super::*;

const LAST_BIT: usize = MAX_FRAMES - 1;

fn bit(mask: &[BitmaskType; BITMASK_ENTRY_COUNT], k: usize) -> bool {
    (mask[k / BITMASK_ENTRY_BITS] >> (k % BITMASK_ENTRY_BITS)) & 1 == 1
}

/// Representation invariant of a queue that accepts frames (`!idle`).
fn wf(q: &DefragQueue) -> bool {
    if q.idle {
        return true;
    }
    let middle_any = (q.recv_mask[0] != 0) || ((q.recv_mask[1] & !(1u128 << 127)) != 0);
    let last_set = bit(&q.recv_mask, LAST_BIT);
    // (a) window size range
    if let Some(w) = q.frame_window_size {
        if w < MIN_PAYLOAD_SIZE || w > MAX_PACKET_SIZE {
            return false;
        }
    }
    // (b) middle frames imply a window size
    if middle_any && q.frame_window_size.is_none() {
        return false;
    }
    // (c) last frame received <=> final size known; then l known and l <= f <= MAX
    if last_set != q.final_packet_size.is_some() {
        return false;
    }
    if let Some(f) = q.final_packet_size {
        match q.last_frame_offset {
            None => return false,
            Some(l) => {
                if (l as usize) > f || f > MAX_PACKET_SIZE {
                    return false;
                }
            }
        }
    }
    // (d) expected frame count known <=> both known; it counts the frames below the last frame
    //     plus the last frame itself, and the last frame starts on a window boundary:
    //     (e - 1) * w == l
    let both = q.final_packet_size.is_some() && q.frame_window_size.is_some();
    if q.expected_frames.is_some() != both {
        return false;
    }
    if let (Some(e), Some(w), Some(l)) = (q.expected_frames, q.frame_window_size, q.last_frame_offset) {
        if e < 1 || e > MAX_FRAMES {
            return false;
        }
        if (e - 1) * w != l as usize {
            return false;
        }
    }
    true
}

/// wf clause that quantifies over mask bits, checked at one symbolic bit index `k`.
fn wf_bit(q: &DefragQueue, k: usize) -> bool {
    if q.idle || k >= LAST_BIT || !bit(&q.recv_mask, k) {
        return true;
    }
    match q.frame_window_size {
        None => false,
        Some(w) => (k + 1) * w <= MAX_PACKET_SIZE,
    }
}

/// Position `i` (which lies in window `k`, i.e. i = k*w + r with r < w, whenever a window size
/// is known) has been written by an accepted frame of the current packet.
fn covered(q: &DefragQueue, k: usize, i: usize) -> bool {
    if q.frame_window_size.is_some() && k < LAST_BIT && bit(&q.recv_mask, k) {
        return true;
    }
    if bit(&q.recv_mask, LAST_BIT) {
        if let (Some(l), Some(f)) = (q.last_frame_offset, q.final_packet_size) {
            if (l as usize) <= i && i < f {
                return true;
            }
        }
    }
    false
}

/// Zeroed 64 KiB box obtained through `alloc_zeroed` (no initialisation loop in the trace).
fn zero_box() -> Box<[u8; MAX_PACKET_SIZE]> {
    vec![0u8; MAX_PACKET_SIZE].into_boxed_slice().try_into().unwrap()
}

fn any_opt_usize() -> Option<usize> {
    if kani::any() { Some(kani::any()) } else { None }
}

/// Arbitrary queue: every scalar field symbolic. The buffer content is irrelevant to the scalar
/// contracts (it is never read by the code under contract), so it is left zeroed.
fn any_queue() -> DefragQueue {
    DefragQueue {
        stream_offset: kani::any(),
        next_frame_offset: kani::any(),
        assembly_buffer: zero_box(),
        recv_mask: kani::any(),
        frame_window_size: any_opt_usize(),
        final_packet_size: any_opt_usize(),
        expected_frames: any_opt_usize(),
        last_frame_offset: if kani::any() { Some(kani::any()) } else { None },
        idle: kani::any(),
    }
}

fn any_header() -> proto::FragmentFrameHeader {
    proto::FragmentFrameHeader {
        stream_offset: kani::any(),
        frame_offset: kani::any(),
        flags: kani::any(),
    }
}

/// Case split on the pre-state (keeps each solver query small; the union of the four cases is
/// every state): bit 0 = final size known, bit 1 = window size known; 4 = no restriction.
fn assume_pre_case(q: &DefragQueue, pre: u8) {
    if pre < 4 {
        kani::assume(q.final_packet_size.is_some() == (pre & 1 != 0));
        kani::assume(q.frame_window_size.is_some() == (pre & 2 != 0));
    }
}

/// kind: 0 = any frame, 1 = middle frames only, 2 = last frames only.
fn assume_kind(h: &proto::FragmentFrameHeader, kind: u8) {
    if kind == 1 {
        kani::assume(!h.is_last());
    }
    if kind == 2 {
        kani::assume(h.is_last());
    }
}

/// Inductive step, invariant part: no panic, wf re-established, emission shape, at most once,
/// from an ARBITRARY wf state with an ARBITRARY frame of the given kind.
fn ingest_wf(kind: u8, pre: u8, expect_emit: bool) {
    let mut q = any_queue();
    assume_pre_case(&q, pre);
    let k: usize = kani::any();
    kani::assume(k < MAX_FRAMES);
    kani::assume(wf(&q));
    kani::assume(wf_bit(&q, k));
    // arbitrary frame: header fully symbolic, fragment = symbolic-length prefix of a 64 KiB array
    // (every length a u16-framed datagram can carry)
    let backing = zero_box();
    let len: usize = kani::any();
    kani::assume(len <= MAX_PACKET_SIZE);
    let header = any_header();
    assume_kind(&header, kind);
    let frame = FragmentFrameRef { header, fragment: &backing[..len] };
    let so_pre = q.stream_offset;
    let idle_pre = q.idle;
    let w_pre = q.frame_window_size;
    let buf_ptr = q.assembly_buffer.as_ptr();
    let res = q.ingest_frame(&frame);
    // `res` borrows q mutably; extract what we need and drop the borrow
    let (is_ok, emitted, p_len, p_ptr, p_so) = match &res {
        Ok(Some(p)) => (true, true, p.payload.len(), p.payload.as_ptr(), p.stream_offset),
        Ok(None) => (true, false, 0, buf_ptr, 0),
        Err(_) => (false, false, 0, buf_ptr, 0),
    };
    drop(res);

    kani::cover!(!expect_emit || (is_ok && emitted), "emission reachable");
    kani::cover!(is_ok && !emitted, "partial ingest reachable");
    kani::cover!(!is_ok && !idle_pre && !q.idle, "rejection that keeps the queue busy reachable");
    kani::cover!(!is_ok && !idle_pre && q.idle, "rejection that abandons the packet reachable");
    // an idle queue never accepts
    if idle_pre {
        assert!(!is_ok, "C17.idle: idle queue accepted a frame");
    }
    // the stream offset of a queue changes only through init
    assert!(q.stream_offset == so_pre, "C17.so: ingest changed the stream offset");
    // invariant re-established
    assert!(wf(&q), "C17.wf: representation invariant broken by ingest_frame");
    assert!(wf_bit(&q, k), "C17.wf_bit: mask/window invariant broken by ingest_frame");
    // the window size of a packet never changes once known
    if !q.idle && w_pre.is_some() {
        assert!(q.frame_window_size == w_pre, "C17.window: window size changed while reassembling");
    }
    // emission: exactly the announced size, at most once (queue idle after)
    if emitted {
        assert!(q.idle, "C17.once: queue still accepting after emission");
        assert!(p_so == so_pre, "C17.attr: packet attributed to another stream offset");
        assert!(p_ptr == buf_ptr, "C17.ptr: payload is not the assembly buffer prefix");
        assert!(p_len <= MAX_PACKET_SIZE, "C17.len: payload longer than the buffer");
        assert!(Some(p_len) == q.final_packet_size, "C17.size: payload length is not the announced size");
    }
}

#[kani::proof]
fn c17_ingest_wf_middle_f0() {
    // middle frame, final size unknown (pre cases 0 and 2): emission impossible
    let pre: u8 = if kani::any() { 0 } else { 2 };
    ingest_wf(1, pre, false);
}

#[kani::proof]
fn c17_ingest_wf_middle_f1() {
    let pre: u8 = if kani::any() { 1 } else { 3 };
    ingest_wf(1, pre, true);
}

#[kani::proof]
fn c17_ingest_wf_last() {
    ingest_wf(2, 4, true);
}

/// Inductive step, coverage part, at an arbitrary byte position: the coupling invariant
/// `covered ==> R` is preserved and every emitted byte satisfies R.
fn ingest_cover(kind: u8, pre: u8, expect_emit: bool) {
    let mut q = any_queue();
    assume_pre_case(&q, pre);
    kani::assume(!q.idle); // an idle queue rejects every frame (proved in ingest_wf)
    kani::assume(wf(&q));
    let backing = zero_box();
    let len: usize = kani::any();
    kani::assume(len <= MAX_PACKET_SIZE);
    let header = any_header();
    assume_kind(&header, kind);
    let off = header.frame_offset as usize;

    // arbitrary byte position i = k*W + r (r < W) where W is the window size of the packet: the
    // queue's if known, else the one this frame would establish (for a last frame arriving at a
    // queue without a window size no middle frame exists and any decomposition serves).
    let window = match q.frame_window_size {
        Some(w) => w,
        None => if header.is_last() || len == 0 { 1 } else { len },
    };
    let k: usize = kani::any();
    let r: usize = kani::any();
    kani::assume(k <= MAX_PACKET_SIZE && r < window);
    let i = k * window + r;
    kani::assume(i < MAX_PACKET_SIZE);
    kani::assume(wf_bit(&q, k));
    let r_pre: bool = kani::any(); // R(i) in the pre-state
    kani::assume(q.idle || !covered(&q, k, i) || r_pre); // coupling invariant at i

    let frame = FragmentFrameRef { header, fragment: &backing[..len] };
    let res = q.ingest_frame(&frame);
    let (is_ok, emitted, p_len) = match &res {
        Ok(Some(p)) => (true, true, p.payload.len()),
        Ok(None) => (true, false, 0),
        Err(_) => (false, false, 0),
    };
    drop(res);
    // ghost update from the write contract: an accepted frame establishes R on exactly its range
    let in_frame = off <= i && i < off + len;
    let r_post = if is_ok && in_frame { true } else { r_pre };
    if !q.idle {
        // the decomposition of i stays valid: the window did not change
        assert!(q.frame_window_size.is_none() || q.frame_window_size == Some(window),
                "C17.window: window size changed while reassembling");
        assert!(!covered(&q, k, i) || r_post,
                "C17.coupling: position counted as received without a frame of this packet");
    }
    if emitted && i < p_len {
        assert!(r_post, "C17.intact: emitted byte was not received in a frame of this packet");
    }
    kani::cover!(!expect_emit || (emitted && i < p_len), "emitted byte reachable");
    kani::cover!(is_ok && !emitted && covered(&q, k, i), "covered byte after partial ingest reachable");
}

#[kani::proof]
fn c17_ingest_cover_middle_f0() {
    let pre: u8 = if kani::any() { 0 } else { 2 };
    ingest_cover(1, pre, false);
}

#[kani::proof]
fn c17_ingest_cover_middle_f1w0() {
    ingest_cover(1, 1, true);
}

#[kani::proof]
fn c17_ingest_cover_middle_f1w1() {
    ingest_cover(1, 3, true);
}

#[kani::proof]
fn c17_ingest_cover_last_w0() {
    // no window size known: nothing can be emitted
    let pre: u8 = if kani::any() { 0 } else { 1 };
    ingest_cover(2, pre, false);
}

#[kani::proof]
fn c17_ingest_cover_last_w1() {
    // (final size known => duplicate last frame => rejected; covered by the same harness)
    let pre: u8 = if kani::any() { 2 } else { 3 };
    ingest_cover(2, pre, true);
}

/// `init` makes any queue (whatever it held before) a wf, empty, accepting queue for the frame's
/// stream offset: nothing of the previous packet is covered.
#[kani::proof]
fn c17_init_resets() {
    let mut q = any_queue();
    let header = any_header();
    let data = [0u8; 4];
    let frame = FragmentFrameRef { header, fragment: &data[..] };
    q.init(&frame);
    let i: usize = kani::any();
    kani::assume(i < MAX_PACKET_SIZE);
    let k: usize = kani::any();
    kani::assume(k < MAX_FRAMES);
    assert!(!q.idle, "C17.init: queue not accepting after init");
    assert!(q.stream_offset == header.stream_offset, "C17.init: stream offset not taken");
    assert!(wf(&q), "C17.init: wf not established");
    assert!(wf_bit(&q, k), "C17.init: wf_bit not established");
    assert!(!covered(&q, k, i), "C17.init: byte of the previous packet still counted as received");
}

// ---------------------------------------------------------------------------------------------
// Honest sender: Fragmenter::send contract, and completeness of reassembly for its frames
// ---------------------------------------------------------------------------------------------

/// The prometheus counters cannot be constructed under Kani (label maps need getrandom, the
/// registry needs futexes). `send` only bumps two counters, so the counter methods are stubbed to
/// no-ops and the metrics value itself is never touched (it is forgotten, not dropped).
fn noop_inc<P: prometheus::core::Atomic>(_c: &prometheus::core::GenericCounter<P>) {}
fn noop_inc_by<P: prometheus::core::Atomic>(_c: &prometheus::core::GenericCounter<P>, _v: P::T) {}

fn untouched_frag_metrics() -> FragmentMetrics {
    // SAFETY (harness only): never read, cloned or dropped; inc/inc_by are stubbed.
    unsafe { core::mem::MaybeUninit::<FragmentMetrics>::zeroed().assume_init() }
}

/// `Fragmenter::send` produces exactly the honest frames, in order: frame j has offset j*ps and
/// length min(ps, n - j*ps) and is a sub-slice of `data` at that offset, ps = mtu - HEADER >=
/// MIN_PAYLOAD_SIZE, only the last carries LAST, offsets fit u16, at most MAX_FRAMES frames.
/// Loop bounded by MAX_FRAMES (operand width): unwinding assertions on, so complete for all
/// 1 <= n <= 65535 and all MTUs.
fn send_contract(max_frames: usize) {
    let mtu: usize = kani::any();
    let mut fr = Fragmenter { mtu: 0, stream_offset: kani::any(), metrics: untouched_frag_metrics() };
    fr.set_mtu(mtu);
    assert!(fr.mtu >= MIN_MTU && fr.mtu <= MAX_MTU, "C17.mtu: set_mtu outside [MIN_MTU, MAX_MTU]");
    let ps = fr.mtu - proto::FragmentFrameHeader::SIZE;
    let so = fr.stream_offset;
    let backing = zero_box();
    let n: usize = kani::any();
    kani::assume(n >= 1 && n <= MAX_PACKET_SIZE);
    kani::assume(n <= max_frames * ps); // bound on the number of frames (MAX_FRAMES = no bound)
    let data = &backing[..n];
    let base = data.as_ptr() as usize;
    // one symbolic frame index observed (universal by symbolic choice)
    let watch: usize = kani::any();
    kani::assume(watch < MAX_FRAMES);
    let mut seen = 0usize;
    let mut watched: Option<(u64, usize, usize, usize, bool)> = None;
    let r = fr.send(data, |f: FragmentFrameRef<'_>| {
        if seen == watch {
            watched = Some((f.header.stream_offset, f.header.frame_offset as usize, f.fragment.len(),
                            f.fragment.as_ptr() as usize, f.header.is_last()));
        }
        seen += 1;
    });
    assert!(r == Ok(so), "C17.send.ret: send did not return the packet's stream offset");
    assert!(seen >= 1 && seen <= MAX_FRAMES, "C17.send.max: frame count outside 1..=MAX_FRAMES");
    assert!((seen - 1) * ps < n && n <= seen * ps, "C17.send.count: number of frames is not ceil(n / payload)");
    if let Some((w_so, w_off, w_len, w_ptr, w_last)) = watched {
        let j = watch;
        assert!(w_so == so, "C17.send.frame: wrong stream offset");
        assert!(w_off == j * ps, "C17.send.frame: offset is not j * payload");
        assert!(w_ptr == base + j * ps, "C17.send.frame: fragment is not data[j*payload..]");
        assert!(w_last == (j == seen - 1), "C17.send.frame: LAST flag not exactly on the last frame");
        if j == seen - 1 {
            assert!(w_len == n - j * ps && w_len >= 1, "C17.send.frame: last fragment length");
        } else {
            assert!(w_len == ps && w_len >= MIN_PAYLOAD_SIZE, "C17.send.frame: middle fragment length");
        }
    } else {
        assert!(watch >= seen, "C17.send.frame: watched frame not produced");
    }
    assert!(fr.stream_offset == so.wrapping_add(n as u64), "C17.send.so: stream offset not advanced by n");
    kani::cover!(seen == max_frames, "maximal frame count reachable");
    kani::cover!(seen == 1, "single frame reachable");
    kani::cover!(watched.is_some() && watch > 0 && watch == seen - 1, "watched last frame reachable");
    core::mem::forget(fr);
}

/// Bounded stand-in for the quick tier: packets of at most 4 frames.
#[kani::proof]
#[kani::unwind(6)]
#[kani::stub(prometheus::core::GenericCounter::inc, noop_inc)]
#[kani::stub(prometheus::core::GenericCounter::inc_by, noop_inc_by)]
fn c17_send_contract_b4() {
    send_contract(4);
}

/// Complete: every frame count up to MAX_FRAMES (thorough tier).
#[kani::proof]
#[kani::unwind(258)]
#[kani::stub(prometheus::core::GenericCounter::inc, noop_inc)]
#[kani::stub(prometheus::core::GenericCounter::inc_by, noop_inc_by)]
fn c17_send_contract_full() {
    send_contract(MAX_FRAMES);
}

/// Mask with exactly the honest bits of a `cnt`-frame packet set: 0..cnt-2 and LAST.
fn full_mask(cnt: usize) -> [BitmaskType; BITMASK_ENTRY_COUNT] {
    let mid = cnt - 1;
    let m0: u128 = if mid >= 128 { !0u128 } else { !(!0u128 << mid) };
    let m1: u128 = if mid <= 128 { 0 } else { !(!0u128 << (mid - 128)) };
    [m0, m1 | (1u128 << 127)]
}

/// Queue state that is consistent with having received a subset of the honest frames of the
/// packet with `cnt` >= 2 frames of payload `ps` and a last frame of `tail` bytes
/// (single-frame packets take the fast path in recv_fallible).
fn honest_state(q: &DefragQueue, cnt: usize, ps: usize, tail: usize) -> bool {
    if q.idle || !wf(q) {
        return false;
    }
    if let Some(w) = q.frame_window_size {
        if w != ps {
            return false;
        }
    }
    if let Some(f) = q.final_packet_size {
        if f != (cnt - 1) * ps + tail || q.last_frame_offset != Some(((cnt - 1) * ps) as u16) {
            return false;
        }
    }
    true
}

/// Completeness step: a not-yet-received honest frame is always accepted, keeps the state
/// honest, and the packet is emitted exactly when it was the last missing frame -- in any
/// arrival order (the pre-state is an arbitrary honest subset of the packet's frames).
/// case: 0 = middle frame & last not yet received, 1 = first middle frame after the last frame,
/// 2 = further middle frame after the last frame, 3 = the last frame.
fn honest_step(case: u8) {
    // honest packet: cnt frames, payload size ps = mtu - HEADER, last frame of 1..=ps bytes
    let mtu: usize = kani::any();
    kani::assume(mtu >= MIN_MTU && mtu <= MAX_MTU);
    let ps = mtu - proto::FragmentFrameHeader::SIZE;
    let cnt: usize = kani::any();
    kani::assume(cnt >= 2 && cnt <= MAX_FRAMES);
    let tail: usize = kani::any();
    kani::assume(tail >= 1 && tail <= ps);
    let n = (cnt - 1) * ps + tail;
    kani::assume(n <= MAX_PACKET_SIZE);
    let mut q = any_queue();
    kani::assume(honest_state(&q, cnt, ps, tail));
    let full = full_mask(cnt);
    // only honest bits are set
    kani::assume(q.recv_mask[0] & !full[0] == 0 && q.recv_mask[1] & !full[1] == 0);
    let mask_pre = q.recv_mask;

    let j: usize = kani::any();
    kani::assume(j < cnt);
    let is_last = j == cnt - 1;
    match case {
        0 => kani::assume(!is_last && q.final_packet_size.is_none()),
        1 => kani::assume(!is_last && q.final_packet_size.is_some() && q.frame_window_size.is_none()),
        2 => kani::assume(!is_last && q.final_packet_size.is_some() && q.frame_window_size.is_some()),
        _ => kani::assume(is_last),
    }
    let jbit = if is_last { LAST_BIT } else { j };
    kani::assume(!bit(&q.recv_mask, jbit)); // not yet received
    let backing = zero_box();
    let len = if is_last { tail } else { ps };
    let header = proto::FragmentFrameHeader {
        stream_offset: q.stream_offset,
        frame_offset: (j * ps) as u16,
        flags: if is_last { FragmentFlags::LAST as u16 } else { 0 },
    };
    let frame = FragmentFrameRef { header, fragment: &backing[..len] };
    let res = q.ingest_frame(&frame);
    let (is_ok, emitted) = match &res {
        Ok(Some(_)) => (true, true),
        Ok(None) => (true, false),
        Err(_) => (false, false),
    };
    drop(res);
    assert!(is_ok, "C17.honest.accept: honest frame rejected");
    let mut mask_post = mask_pre;
    mask_post[jbit / BITMASK_ENTRY_BITS] |= 1u128 << (jbit % BITMASK_ENTRY_BITS);
    assert!(q.recv_mask == mask_post, "C17.honest.bit: mask is not the old mask plus the frame's bit");
    let complete = mask_post == full;
    assert!(emitted == complete, "C17.honest.emit: emission does not coincide with the last missing honest frame");
    if !emitted {
        assert!(honest_state(&q, cnt, ps, tail), "C17.honest.inv: honest state not preserved");
    }
    kani::cover!(case == 0 || emitted, "honest emission reachable");
    kani::cover!(!emitted, "honest partial ingest reachable");
    kani::cover!(cnt == MAX_FRAMES, "256-frame packet reachable");
}

#[kani::proof]
fn c17_honest_step_mid_f0() {
    honest_step(0);
}

#[kani::proof]
fn c17_honest_step_mid_f1w0() {
    honest_step(1);
}

#[kani::proof]
fn c17_honest_step_mid_f1w1() {
    honest_step(2);
}

#[kani::proof]
fn c17_honest_step_last() {
    honest_step(3);
}
