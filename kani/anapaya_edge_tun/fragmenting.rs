// Contract module for crates/libs/anapaya-edge-tun/src/fragmenting.rs (property C17).
// Included from the real crate by `#[cfg(kani)] #[path = ...] mod verif_fragmenting;`, so it
// is a child of `fragmenting` and sees the private fields of `DefragQueue`.
//
// Contract structure (see DESIGN.md §3/C17):
//   wf(q)        representation invariant of a non-idle reassembly queue
//   covered(q,i) byte i of the assembly buffer was written by a frame of the packet that is
//                currently being reassembled (derived from recv_mask, never stored)
//   R(i)         ghost: "assembly_buffer[i] is a byte that a frame of the current packet carried
//                at packet position i".  wf-coupling: covered(q,i) ==> R(i).
// Each public step is proved from an ARBITRARY wf state (all fields symbolic, 64 KiB buffer
// symbolic) for an ARBITRARY frame and an ARBITRARY byte position i, so the universally
// quantified statements hold by symbolic choice of i and the history statement by induction.
#![allow(dead_code)]

use super::*;

const LAST_BIT: usize = MAX_FRAMES - 1;

fn bit(mask: &[BitmaskType; BITMASK_ENTRY_COUNT], k: usize) -> bool {
    (mask[k / BITMASK_ENTRY_BITS] >> (k % BITMASK_ENTRY_BITS)) & 1 == 1
}

/// Representation invariant of a queue that accepts frames (`!idle`).
fn wf(q: &DefragQueue) -> bool {
    if q.idle {
        return true;
    }
    let middle_any = (q.recv_mask[0] != 0) || ((q.recv_mask[1] & !(1u128 << 127)) != 0);
    let last_set = bit(&q.recv_mask, LAST_BIT);
    // (a) window size range
    if let Some(w) = q.frame_window_size {
        if w < MIN_PAYLOAD_SIZE || w > MAX_PACKET_SIZE {
            return false;
        }
    }
    // (b) middle frames imply a window size
    if middle_any && q.frame_window_size.is_none() {
        return false;
    }
    // (c) last frame received <=> final size known; then l known and l <= f <= MAX
    if last_set != q.final_packet_size.is_some() {
        return false;
    }
    if let Some(f) = q.final_packet_size {
        match q.last_frame_offset {
            None => return false,
            Some(l) => {
                if (l as usize) > f || f > MAX_PACKET_SIZE {
                    return false;
                }
            }
        }
    }
    // (d) expected frame count known <=> both known
    let both = q.final_packet_size.is_some() && q.frame_window_size.is_some();
    if q.expected_frames.is_some() != both {
        return false;
    }
    if let (Some(e), Some(f), Some(w), Some(l)) = (
        q.expected_frames,
        q.final_packet_size,
        q.frame_window_size,
        q.last_frame_offset,
    ) {
        if (l as usize) % w != 0 {
            return false;
        }
        if e > MAX_FRAMES {
            return false;
        }
        let _ = f;
    }
    true
}

/// wf clause that quantifies over mask bits, checked at one symbolic bit index `k`.
fn wf_bit(q: &DefragQueue, k: usize) -> bool {
    if q.idle || k >= LAST_BIT || !bit(&q.recv_mask, k) {
        return true;
    }
    match q.frame_window_size {
        None => false,
        Some(w) => (k + 1) * w <= MAX_PACKET_SIZE,
    }
}

/// Byte `i` of the buffer has been written by a frame of the current packet.
fn covered(q: &DefragQueue, i: usize) -> bool {
    if let Some(w) = q.frame_window_size {
        if w != 0 {
            let k = i / w;
            if k < LAST_BIT && bit(&q.recv_mask, k) {
                return true;
            }
        }
    }
    if bit(&q.recv_mask, LAST_BIT) {
        if let (Some(l), Some(f)) = (q.last_frame_offset, q.final_packet_size) {
            if (l as usize) <= i && i < f {
                return true;
            }
        }
    }
    false
}

fn any_opt_usize() -> Option<usize> {
    if kani::any() { Some(kani::any()) } else { None }
}

fn any_queue() -> DefragQueue {
    DefragQueue {
        stream_offset: kani::any(),
        next_frame_offset: kani::any(),
        assembly_buffer: Box::new(kani::any()),
        recv_mask: kani::any(),
        frame_window_size: any_opt_usize(),
        final_packet_size: any_opt_usize(),
        expected_frames: any_opt_usize(),
        last_frame_offset: if kani::any() { Some(kani::any()) } else { None },
        idle: kani::any(),
    }
}

/// Inductive step of `DefragQueue::ingest_frame` from an arbitrary wf state.
#[kani::proof]
fn c17_ingest_step() {
    let mut q = any_queue();
    let k: usize = kani::any();
    kani::assume(k < MAX_FRAMES);
    kani::assume(wf(&q));
    kani::assume(wf_bit(&q, k));

    // arbitrary frame: header fully symbolic, fragment = symbolic-length prefix of a symbolic
    // 64 KiB array (every length a u16-framed datagram can carry)
    let backing: Box<[u8; MAX_PACKET_SIZE]> = Box::new(kani::any());
    let len: usize = kani::any();
    kani::assume(len <= MAX_PACKET_SIZE);
    let header = proto::FragmentFrameHeader {
        stream_offset: kani::any(),
        frame_offset: kani::any(),
        flags: kani::any(),
    };
    let frame = FragmentFrameRef { header, fragment: &backing[..len] };
    let off = header.frame_offset as usize;

    // arbitrary byte position and its ghost
    let i: usize = kani::any();
    kani::assume(i < MAX_PACKET_SIZE);
    let r_pre: bool = kani::any(); // R(i) in the pre-state
    let cov_pre = covered(&q, i);
    kani::assume(!cov_pre || r_pre); // coupling invariant at i
    // for the coupling to be usable the bit that covers i must itself be wf
    if let Some(w) = q.frame_window_size {
        if w != 0 {
            kani::assume(wf_bit(&q, i / w));
        }
    }
    let byte_pre = q.assembly_buffer[i];
    let so_pre = q.stream_offset;
    let idle_pre = q.idle;
    let buf_ptr = q.assembly_buffer.as_ptr();

    let res = q.ingest_frame(&frame);
    // `res` borrows q mutably; extract what we need and drop the borrow
    let (is_ok, emitted, p_len, p_ptr, p_so) = match &res {
        Ok(Some(p)) => (true, true, p.payload.len(), p.payload.as_ptr(), p.stream_offset),
        Ok(None) => (true, false, 0, buf_ptr, 0),
        Err(_) => (false, false, 0, buf_ptr, 0),
    };
    drop(res);

    kani::cover!(is_ok && emitted, "emission reachable");
    kani::cover!(is_ok && !emitted, "partial ingest reachable");
    kani::cover!(!is_ok && !idle_pre, "rejection of a frame by a busy queue reachable");

    let in_frame = off <= i && i < off + len;
    let byte_post = q.assembly_buffer[i];

    // frame condition: only an accepted frame writes, and only inside its own range
    if byte_post != byte_pre {
        assert!(is_ok && in_frame, "C17.frame: write outside the accepted frame's range");
    }
    if is_ok && in_frame {
        assert!(byte_post == backing[i - off], "C17.copy: accepted frame byte not stored");
    }
    // ghost update: an accepted frame establishes R on its range, nothing else changes R
    let r_post = if is_ok && in_frame { true } else { r_pre };

    // an idle queue never accepts
    if idle_pre {
        assert!(!is_ok, "C17.idle: idle queue accepted a frame");
    }
    // the stream offset of a queue changes only through init
    assert!(q.stream_offset == so_pre, "C17.so: ingest changed the stream offset");

    // invariant re-established
    assert!(wf(&q), "C17.wf: representation invariant broken by ingest_frame");
    assert!(wf_bit(&q, k), "C17.wf_bit: mask/window invariant broken by ingest_frame");
    if !q.idle {
        assert!(!covered(&q, i) || r_post, "C17.coupling: covered byte not from this packet");
    }

    // emission: intact packet, exactly the announced size, at most once (queue idle after)
    if emitted {
        assert!(q.idle, "C17.once: queue still accepting after emission");
        assert!(p_so == so_pre, "C17.attr: packet attributed to another stream offset");
        assert!(p_ptr == buf_ptr, "C17.ptr: payload is not the assembly buffer prefix");
        assert!(p_len <= MAX_PACKET_SIZE);
        if i < p_len {
            assert!(r_post, "C17.intact: emitted byte was not received in a frame of this packet");
        }
    }
}

/// `init` makes any queue (whatever it held before) a wf, empty, accepting queue for the frame's
/// stream offset: nothing of the previous packet is covered.
#[kani::proof]
fn c17_init_resets() {
    let mut q = any_queue();
    let header = proto::FragmentFrameHeader {
        stream_offset: kani::any(),
        frame_offset: kani::any(),
        flags: kani::any(),
    };
    let data = [0u8; 4];
    let frame = FragmentFrameRef { header, fragment: &data[..] };
    q.init(&frame);
    let i: usize = kani::any();
    kani::assume(i < MAX_PACKET_SIZE);
    let k: usize = kani::any();
    kani::assume(k < MAX_FRAMES);
    assert!(!q.idle, "C17.init: queue not accepting after init");
    assert!(q.stream_offset == header.stream_offset, "C17.init: stream offset not taken");
    assert!(wf(&q), "C17.init: wf not established");
    assert!(wf_bit(&q, k), "C17.init: wf_bit not established");
    assert!(!covered(&q, i), "C17.init: byte of the previous packet still counted as received");
}
