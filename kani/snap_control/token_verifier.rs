//! C10 — SNAP token acceptance, reduced to the validation profile.
//!
//! # Assumed dependency contract (jsonwebtoken 10.x `decode::<AnyClaims>(token, key, profile)`)
//!
//! ```text
//! Accept(profile, key, now, token)  <=>
//!      token = b64(header) "." b64(claims) "." b64(sig), header/claims are JSON objects
//!   /\ header.alg ∈ profile.algorithms                       (and matches the key family)
//!   /\ sig is a valid signature of "b64(header).b64(claims)" under `key` with header.alg
//!   /\ ∀ c ∈ profile.required_spec_claims ∩ {exp,nbf,aud,iss,sub}: c present in claims
//!   /\ (profile.validate_exp /\ exp present  =>  exp − profile.reject_tokens_expiring_in_less_than ≥ now − profile.leeway)
//!   /\ (profile.validate_nbf /\ nbf present  =>  nbf ≤ now + profile.leeway)
//!   /\ (profile.validate_aud /\ aud present  =>  profile.aud = Some(S) /\ aud ∩ S ≠ ∅)
//!   /\ (profile.iss = Some(S) /\ iss present =>  iss ∈ S)        (profile.sub likewise)
//!   /\ claims deserialize as `AnyClaims` (serde: version dispatch on `ver`, all non-optional
//!      fields of that version present and well typed)
//! ```
//!
//! This predicate is third-party code (base64, serde_json, Ed25519) and is ASSUMED. The obligation
//! on the repository is that `build_validation()` — a constant function — instantiates `profile`
//! such that `Accept(build_validation(), ..)` is the predicate of the property statement:
//! EdDSA only; exp and nbf both enforced; audience, when named, must be the SNAP audience; the
//! spec claims every version requires are required; leeway is the fixed 60 s; no early-expiry
//! rejection window.
//!
//! # How the profile is inspected (tractability)
//!
//! Building a `HashSet<String>` inside CBMC is intractable here (hashbrown's SSE2 group probing:
//! one `build_validation()` call did not finish symbolic execution in 1500 s). The two
//! set-valued fields are therefore observed at the dependency's setter boundary: the harness
//! replaces `Validation::set_audience` and `Validation::set_required_spec_claims` by recorders
//! that store whether the argument list is the expected one and leave an empty set in the field.
//! Their documented contracts (`aud := Some(set(items))`, `required_spec_claims := set(items)`)
//! are part of the ASSUMED dependency contract. `Validation::new` is NOT stubbed: the scalar
//! fields (`validate_nbf`, `validate_exp`, `leeway`, …) are read from the real returned value.
//! The `HashSet` hash seed (`RandomState::new`, OS randomness) is replaced by a fixed seed: it only
//! influences the bucket layout, never set contents.

use super::*;

/// The SNAP audience (the value `v1::SnapTokenClaims::new` writes into `aud`).
const SNAP_AUDIENCE: &str = "snap";
/// The verifier's fixed clock leeway in seconds (DESIGN §3 C10).
const LEEWAY_SECS: u64 = 60;

fn fixed_random_state() -> std::hash::RandomState {
    // RandomState is two u64 SipHash keys.
    unsafe { std::mem::transmute::<[u64; 2], std::hash::RandomState>([0x0123_4567, 0x89ab_cdef]) }
}

fn str_eq(a: &str, b: &str) -> bool {
    let (a, b) = (a.as_bytes(), b.as_bytes());
    if a.len() != b.len() {
        return false;
    }
    let mut i = 0;
    while i < a.len() {
        if a[i] != b[i] {
            return false;
        }
        i += 1;
    }
    true
}

// --- recorders for the two setters -------------------------------------------------------------

static mut AUD_CALLS: u8 = 0;
static mut AUD_IS_SNAP_ONLY: bool = false;
static mut REQ_CALLS: u8 = 0;
static mut REQ_HAS_EXP: bool = false;
static mut REQ_HAS_ALL: bool = false;

fn list_has<T: ToString>(items: &[T], needle: &str) -> bool {
    let mut found = false;
    let mut i = 0;
    while i < items.len() {
        if str_eq(items[i].to_string().as_str(), needle) {
            found = true;
        }
        i += 1;
    }
    found
}

/// Recorder for `Validation::set_audience(items)`; assumed contract: `aud := Some(set(items))`.
fn rec_set_audience<T: ToString>(v: &mut Validation, items: &[T]) {
    unsafe {
        AUD_CALLS += 1;
        AUD_IS_SNAP_ONLY = items.len() == 1 && list_has(items, SNAP_AUDIENCE);
    }
    v.aud = Some(std::collections::HashSet::new());
}

/// Recorder for `Validation::set_required_spec_claims(items)`; assumed contract:
/// `required_spec_claims := set(items)`.
fn rec_set_required<T: ToString>(v: &mut Validation, items: &[T]) {
    let req = AnyClaims::required_claims();
    let mut all = true;
    let mut i = 0;
    while i < req.len() {
        if !list_has(items, req[i]) {
            all = false;
        }
        i += 1;
    }
    unsafe {
        REQ_CALLS += 1;
        REQ_HAS_EXP = list_has(items, "exp");
        REQ_HAS_ALL = all && req.len() >= 1;
    }
    // the replaced set is leaked, not dropped: dropping a hashbrown table is a SIMD group scan
    std::mem::forget(std::mem::replace(&mut v.required_spec_claims, std::collections::HashSet::new()));
}

#[kani::proof]
#[kani::stub(std::hash::RandomState::new, fixed_random_state)]
#[kani::stub(jsonwebtoken::Validation::set_audience, rec_set_audience)]
#[kani::stub(jsonwebtoken::Validation::set_required_spec_claims, rec_set_required)]
#[kani::unwind(17)]
fn c10_profile() {
    let v = build_validation();
    assert!(v.algorithms.len() == 1, "C10.alg: exactly one accepted algorithm");
    assert!(v.algorithms[0] == Algorithm::EdDSA, "C10.alg: the accepted algorithm is EdDSA");
    assert!(v.validate_exp, "C10.exp: expiry is validated");
    assert!(
        v.reject_tokens_expiring_in_less_than == 0,
        "C10.exp: no early-expiry rejection window"
    );
    assert!(v.leeway == LEEWAY_SECS, "C10.leeway: leeway is the verifier's fixed 60 s");
    assert!(v.validate_aud, "C10.aud: audience is validated when present");
    assert!(v.aud.is_some(), "C10.aud: an accepted-audience set is configured");
    unsafe {
        assert!(AUD_CALLS == 1 && AUD_IS_SNAP_ONLY, "C10.aud: the accepted audience set is exactly the singleton SNAP audience");
        assert!(REQ_CALLS == 1 && REQ_HAS_EXP, "C10.required: exp is required");
        assert!(REQ_HAS_ALL, "C10.required: every claim required by all versions is required by the profile");
    }
    assert!(v.iss.is_none() && v.sub.is_none(), "C10.profile: no issuer/subject restriction beyond the statement");
    kani::cover!(true, "profile built");
    std::mem::forget(v);
}

#[kani::proof]
#[kani::stub(std::hash::RandomState::new, fixed_random_state)]
#[kani::stub(jsonwebtoken::Validation::set_audience, rec_set_audience)]
#[kani::stub(jsonwebtoken::Validation::set_required_spec_claims, rec_set_required)]
#[kani::unwind(17)]
fn c10_profile_nbf() {
    let v = build_validation();
    assert!(v.validate_nbf, "C10.nbf: not-before is validated when the token has one");
    kani::cover!(true, "profile built");
    std::mem::forget(v);
}
