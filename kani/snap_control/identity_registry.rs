//! C09 — authorisation database `IdentityRegistryState` (snap-control).
//!
//! Representation invariant
//!   wf(s):  `associations` (key -> identity) is injective
//!        /\ sessions.keys() == associations.values()
//!
//! Every operation is proved as an INDUCTIVE STEP from an arbitrary wf state with exactly N entries
//! (one harness per N so that the number of B-tree operations is fixed). The state is generated
//! constructively, which yields exactly the wf states: entry i is (KEYS[i], id_i, exp_i) with the
//! identities symbolic 32-byte values assumed pairwise distinct (= injectivity) and the expiries
//! symbolic; it is inserted directly into the two private maps. Fixing the state's key set to the
//! first N of KEYS loses no generality for code that only compares keys (the operation's own key
//! is any of the four KEYS: one of the state's keys or a fresh one) — stated as part of the bound.
//! Instants range over [base, base + 2^32 s) with arbitrary nanoseconds.
//!
//! The post-state is observed at two arbitrary distinct keys i, j (one symbolic pair stands for
//! all pairs), which is what wf and the frame condition quantify over.
//!
//! Tractability note: `[u8; 32]: Ord` is `memcmp`, so the unwind bound is 33; B-tree node lengths
//! are not constant-propagated by CBMC, so every key search is unrolled 33 x 33.
//!
//! Postconditions are taken from the property statement ("at most one identity per token key and
//! one key per identity", "unexpired registration at that time", "after a registration lapses or is
//! superseded by a new identity under the same token, nothing more flows").

use super::*;

const KEYS: [&str; 4] = ["a", "b", "c", "d"];
const MAXN: usize = 4;

// ---------------------------------------------------------------------------------------------
// symbolic values
// ---------------------------------------------------------------------------------------------

/// `std::time::Instant` on unix is `Timespec { tv_sec: i64, tv_nsec: u32 (< 10^9) }`.
/// `Instant::now()` is a foreign call (clock_gettime), so the base instant is built from its
/// representation; `instant_repr_sane` below checks the representation against the public API.
#[repr(C)]
struct RawInstant {
    sec: i64,
    nsec: u32,
    pad: u32,
}

fn base_instant() -> Instant {
    unsafe { std::mem::transmute::<RawInstant, Instant>(RawInstant { sec: 1_000_000, nsec: 0, pad: 0 }) }
}

fn mk_instant(sec: i64, nsec: u32) -> Instant {
    unsafe { std::mem::transmute::<RawInstant, Instant>(RawInstant { sec, nsec, pad: 0 }) }
}

/// Any instant in [base, base + 2^32 s): seconds offset and nanoseconds fully symbolic.
fn any_instant() -> Instant {
    let s: u32 = kani::any();
    let n: u32 = kani::any();
    kani::assume(n < 1_000_000_000);
    mk_instant(1_000_000 + s as i64, n)
}

fn any_identity() -> Identity {
    kani::any()
}

fn id_eq(a: &Identity, b: &Identity) -> bool {
    let mut i = 0;
    let mut eq = true;
    while i < 32 {
        if a[i] != b[i] {
            eq = false;
        }
        i += 1;
    }
    eq
}

/// KEYS[i] as a string of concrete length 1 and symbolic content (cheaper for CBMC than a
/// symbolic choice among four `&'static str`).
struct KeyBuf([u8; 1]);

impl KeyBuf {
    fn of(i: usize) -> Self {
        KeyBuf([b'a' + i as u8])
    }

    fn as_str(&self) -> &str {
        // SAFETY: a single ASCII byte 'a'..='d'.
        unsafe { std::str::from_utf8_unchecked(&self.0) }
    }
}

fn any_key_index() -> usize {
    let i: usize = kani::any();
    kani::assume(i < KEYS.len());
    i
}

// ---------------------------------------------------------------------------------------------
// arbitrary wf state (harness-side mirror in flat arrays, no map look-ups needed for the pre-state)
// ---------------------------------------------------------------------------------------------

struct Pre {
    /// identity under KEYS[i] (i < N), None for i >= N
    assoc: [Option<Identity>; MAXN],
    expiry: [Option<Instant>; MAXN],
}

impl Pre {
    fn session_of(&self, id: &Identity) -> Option<Instant> {
        let mut r = None;
        let mut i = 0;
        while i < MAXN {
            if let Some(x) = &self.assoc[i] {
                if id_eq(x, id) {
                    r = self.expiry[i];
                }
            }
            i += 1;
        }
        r
    }
}

/// An arbitrary wf state with exactly N entries, and its mirror.
fn any_wf_state<const N: usize>() -> (IdentityRegistryState, Pre) {
    let mut s = IdentityRegistryState::default();
    let mut pre = Pre { assoc: [None; MAXN], expiry: [None; MAXN] };
    let mut i = 0;
    while i < N {
        let id = any_identity();
        let exp = any_instant();
        // wf: injective
        let mut m = 0;
        while m < i {
            kani::assume(!id_eq(pre.assoc[m].as_ref().unwrap(), &id));
            m += 1;
        }
        s.associations.insert(Arc::<str>::from(KEYS[i]), id);
        s.sessions.insert(id, IdentityRegistration::new(exp));
        pre.assoc[i] = Some(id);
        pre.expiry[i] = Some(exp);
        i += 1;
    }
    (s, pre)
}

/// Post-state observation at two arbitrary distinct keys.
struct Post {
    i: usize,
    j: usize,
    ai: Option<Identity>,
    aj: Option<Identity>,
    /// session expiry of `ai`
    ei: Option<Instant>,
}

fn observe(s: &IdentityRegistryState, i: usize, j: usize) -> Post {
    let (ki, kj) = (KeyBuf::of(i), KeyBuf::of(j));
    let ai = s.associations.get(ki.as_str()).copied();
    let aj = s.associations.get(kj.as_str()).copied();
    let ei = match &ai {
        Some(a) => s.sessions.get(a).map(|r| r.expires_at),
        None => None,
    };
    Post { i, j, ai, aj, ei }
}

/// wf at the observed pair: injective, every association has a session, and no session without
/// association (|sessions| == |associations| given the former two).
fn wf_at(s: &IdentityRegistryState, o: &Post) -> bool {
    let inj = match (&o.ai, &o.aj) {
        (Some(a), Some(b)) => !id_eq(a, b),
        _ => true,
    };
    let has_session = o.ai.is_none() || o.ei.is_some();
    inj && has_session && s.sessions.len() == s.associations.len()
}

fn opt_is(a: &Option<Identity>, b: &Identity) -> bool {
    match a {
        Some(x) => id_eq(x, b),
        None => false,
    }
}

/// Outcome classes observed by a step (covered by the per-N harnesses that can reach them).
#[derive(Default)]
struct Seen {
    was_new: bool,
    existed: bool,
    superseded: bool,
    moved: bool,
    kept: bool,
    removed_at_now: bool,
    removed_before_now: bool,
    authorised: bool,
    lapsed: bool,
    unknown: bool,
}

// ---------------------------------------------------------------------------------------------
// add_identity
// ---------------------------------------------------------------------------------------------

fn add_identity_step<const N: usize>() -> Seen {
    let mut seen = Seen::default();
    let (mut s, pre) = any_wf_state::<N>();
    let k = any_key_index();
    let id = any_identity();
    let exp = any_instant();
    let id_had_session = pre.session_of(&id).is_some();
    let i = any_key_index();
    let j = any_key_index();
    kani::assume(i != j);

    let kb = KeyBuf::of(k);
    let was_new = s.add_identity(kb.as_str(), id, exp);

    let o = observe(&s, i, j);
    assert!(wf_at(&s, &o), "C09.wf: add_identity re-establishes the representation invariant");
    assert!(was_new == !id_had_session, "C09.add: return value is true iff the identity had no session");
    seen.was_new = was_new;
    seen.existed = !was_new;

    if i == k {
        assert!(opt_is(&o.ai, &id), "C09.add: the key maps to the registered identity");
        assert!(o.ei == Some(exp), "C09.add: the identity's session carries the new expiry");
    } else {
        assert!(!opt_is(&o.ai, &id), "C09.unique: no other key maps to the registered identity");
        match &pre.assoc[i] {
            None => assert!(o.ai.is_none(), "C09.frame: absent keys stay absent"),
            Some(x) if !id_eq(x, &id) => {
                assert!(opt_is(&o.ai, x), "C09.frame: other associations unchanged");
                assert!(o.ei == pre.expiry[i], "C09.frame: other sessions unchanged");
                seen.kept = true;
            }
            Some(_) => {
                assert!(o.ai.is_none(), "C09.unique: identity moved away from its old key");
                seen.moved = true;
            }
        }
    }

    // superseded identity: neither session nor association
    if let Some(prev) = &pre.assoc[k] {
        if !id_eq(prev, &id) {
            assert!(!s.sessions.contains_key(prev), "C09.supersede: superseded identity has no session");
            assert!(!opt_is(&o.ai, prev), "C09.supersede: superseded identity has no association");
            seen.superseded = true;
        }
    }
    seen
}

#[kani::proof]
#[kani::unwind(33)]
fn c09_add_identity_n0() {
    let seen = add_identity_step::<0>();
    kani::cover!(seen.was_new, "identity was new");
}

#[kani::proof]
#[kani::unwind(33)]
fn c09_add_identity_n1() {
    let seen = add_identity_step::<1>();
    kani::cover!(seen.was_new, "identity was new");
    kani::cover!(seen.existed, "identity existed before");
    kani::cover!(seen.superseded, "a different identity under the same key is superseded");
    kani::cover!(seen.moved, "identity moved to another key");
    kani::cover!(seen.kept, "unrelated entry kept");
}

#[kani::proof]
#[kani::unwind(33)]
fn c09_add_identity_n2() {
    let seen = add_identity_step::<2>();
    kani::cover!(seen.was_new, "identity was new");
    kani::cover!(seen.superseded && seen.existed, "supersession by an identity registered under another key");
    kani::cover!(seen.moved, "identity moved to another key");
    kani::cover!(seen.kept, "unrelated entry kept");
}

#[kani::proof]
#[kani::unwind(33)]
fn c09_add_identity_n3() {
    let seen = add_identity_step::<3>();
    kani::cover!(seen.was_new, "identity was new");
    kani::cover!(seen.superseded && seen.existed, "supersession by an identity registered under another key");
    kani::cover!(seen.moved, "identity moved to another key");
    kani::cover!(seen.kept, "unrelated entry kept");
}

// ---------------------------------------------------------------------------------------------
// clean_expired
// ---------------------------------------------------------------------------------------------

fn clean_expired_step<const N: usize>() -> Seen {
    let mut seen = Seen::default();
    let (mut s, pre) = any_wf_state::<N>();
    let now = any_instant();
    let i = any_key_index();
    let j = any_key_index();
    kani::assume(i != j);

    s.clean_expired(now);

    let o = observe(&s, i, j);
    assert!(wf_at(&s, &o), "C09.wf: clean_expired re-establishes the representation invariant");
    match (&pre.assoc[i], pre.expiry[i]) {
        (Some(x), Some(e)) => {
            if e <= now {
                assert!(o.ai.is_none(), "C09.clean: expired association removed");
                assert!(!s.sessions.contains_key(x), "C09.clean: expired session removed");
                seen.removed_at_now = e == now;
                seen.removed_before_now = e < now;
            } else {
                assert!(opt_is(&o.ai, x), "C09.clean: unexpired association kept");
                assert!(o.ei == Some(e), "C09.clean: unexpired session kept unchanged");
                seen.kept = true;
            }
        }
        _ => assert!(o.ai.is_none(), "C09.clean: nothing is added"),
    }
    seen
}

#[kani::proof]
#[kani::unwind(33)]
fn c09_clean_expired_n0() {
    let _ = clean_expired_step::<0>();
    kani::cover!(true, "empty registry cleaned");
}

#[kani::proof]
#[kani::unwind(33)]
fn c09_clean_expired_n1() {
    let seen = clean_expired_step::<1>();
    kani::cover!(seen.removed_at_now, "entry expiring exactly now is removed");
    kani::cover!(seen.removed_before_now, "entry expired earlier is removed");
    kani::cover!(seen.kept, "unexpired entry kept");
}

#[kani::proof]
#[kani::unwind(33)]
fn c09_clean_expired_n2() {
    let seen = clean_expired_step::<2>();
    kani::cover!(seen.removed_at_now, "entry expiring exactly now is removed");
    kani::cover!(seen.removed_before_now, "entry expired earlier is removed");
    kani::cover!(seen.kept, "unexpired entry kept");
}

#[kani::proof]
#[kani::unwind(33)]
fn c09_clean_expired_n3() {
    let seen = clean_expired_step::<3>();
    kani::cover!(seen.removed_at_now, "entry expiring exactly now is removed");
    kani::cover!(seen.removed_before_now, "entry expired earlier is removed");
    kani::cover!(seen.kept, "unexpired entry kept");
}

// ---------------------------------------------------------------------------------------------
// is_authorized
// ---------------------------------------------------------------------------------------------

fn is_authorized_step<const N: usize>() -> Seen {
    let mut seen = Seen::default();
    let (s, pre) = any_wf_state::<N>();
    let now = any_instant();
    let id = any_identity();

    let session = pre.session_of(&id);
    let expected = match session {
        Some(e) => e > now,
        None => false,
    };

    let got = s.is_authorized(now, &id).is_some();
    assert!(got == expected, "C09.auth: Some iff a session exists and expires strictly after now");
    seen.authorised = got;
    seen.lapsed = !got && session.is_some();
    seen.unknown = !got && session.is_none();
    seen
}

#[kani::proof]
#[kani::unwind(33)]
fn c09_is_authorized_n0() {
    let seen = is_authorized_step::<0>();
    kani::cover!(seen.unknown, "unknown identity");
}

#[kani::proof]
#[kani::unwind(33)]
fn c09_is_authorized_n1() {
    let seen = is_authorized_step::<1>();
    kani::cover!(seen.authorised, "authorised");
    kani::cover!(seen.lapsed, "session present but lapsed");
    kani::cover!(seen.unknown, "unknown identity");
}

#[kani::proof]
#[kani::unwind(33)]
fn c09_is_authorized_n2() {
    let seen = is_authorized_step::<2>();
    kani::cover!(seen.authorised, "authorised");
    kani::cover!(seen.lapsed, "session present but lapsed");
    kani::cover!(seen.unknown, "unknown identity");
}

#[kani::proof]
#[kani::unwind(33)]
fn c09_is_authorized_n3() {
    let seen = is_authorized_step::<3>();
    kani::cover!(seen.authorised, "authorised");
    kani::cover!(seen.lapsed, "session present but lapsed");
    kani::cover!(seen.unknown, "unknown identity");
}

/// `IdentityRegistration::is_authorized` is the strict comparison of the statement (loop-free,
/// full domain of the constructed instants).
#[kani::proof]
fn c09_registration_strict() {
    let e = any_instant();
    let now = any_instant();
    assert!(
        IdentityRegistration::new(e).is_authorized(now) == (e > now),
        "C09.auth: a registration is authorised strictly before its expiry"
    );
    kani::cover!(e == now, "expiry exactly now");
}

// ---------------------------------------------------------------------------------------------
// sanity of the Instant construction used above
// ---------------------------------------------------------------------------------------------

/// Concrete spot checks that `mk_instant` agrees with the public `Instant` API (field order,
/// nanosecond carry, ordering).
#[kani::proof]
fn c09_instant_repr_sane() {
    let _ = base_instant();
    assert!(
        mk_instant(5, 999_999_999) + Duration::new(0, 1) == mk_instant(6, 0),
        "C09.harness: Instant representation agrees with the API (carry)"
    );
    assert!(
        mk_instant(5, 7).duration_since(mk_instant(2, 9)) == Duration::new(2, 999_999_998),
        "C09.harness: Instant representation agrees with the API (difference)"
    );
    assert!(mk_instant(6, 0) > mk_instant(5, 999_999_999), "C09.harness: Instant order (seconds dominate)");
    assert!(mk_instant(6, 1) > mk_instant(6, 0), "C09.harness: Instant order (nanoseconds)");
    kani::cover!(true, "reached");
}
