// Contract module for crates/scion-stack/src/stack/scmp_handler/error.rs (property C14, clause 4).
// Included from the real crate by `#[cfg(kani)] #[path = ...] mod verif_c14_error;`.
//
// Contract of `ScmpErrorHandler::handle(pkt)`: for EVERY raw SCION packet view over at most N bytes
// (all SCMP types and codes incl. the five error types, errors quoting errors, truncated SCMP,
// non-SCMP payloads) the handler returns no packet (`None`) and does not panic: a received SCMP
// error never triggers a reply.
#![allow(dead_code)]

use sciparse::core::view::View;

use super::*;

#[kani::proof]
#[kani::unwind(34)]
fn c14_error_handler_silent_n64() {
    let buf: [u8; 64] = kani::any();
    let len: usize = kani::any();
    kani::assume(len <= 64);
    let d = &buf[..len];
    let r = ScionRawPacketView::try_from_slice(d);
    kani::assume(r.is_ok()); // type invariant of the argument: only valid views exist
    let (view, _) = r.unwrap();
    let handler = ScmpErrorHandler::new(Subscribers::new());
    let out = handler.handle(view);
    assert!(out.is_none(), "C14.error_silent: SCMP error handler produced a reply packet");
    let pkt = view.as_slice();
    let hdr = (pkt[5] as usize) * 4;
    let payload = &pkt[hdr..];
    kani::cover!(pkt[4] == 202 && payload.len() >= 8 && payload[0] == 1, "destination unreachable handled");
    kani::cover!(pkt[4] == 202 && payload.len() >= 28 && payload[0] == 6, "internal connectivity down handled");
    kani::cover!(pkt[4] == 202 && payload.len() >= 8 && payload[0] == 4 && payload.len() > 8 + 36 && payload[8 + 4] == 202,
        "error quoting an SCMP packet handled");
    kani::cover!(pkt[4] == 202 && payload.len() >= 8 && payload[0] == 128, "informational message ignored");
    kani::cover!(pkt[4] == 202 && payload.len() < 8, "truncated SCMP ignored");
    kani::cover!(pkt[4] != 202, "non-SCMP ignored");
}
