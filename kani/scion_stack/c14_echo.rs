// Contract module for crates/scion-stack/src/stack/scmp_handler/echo.rs (property C14, clause 3).
// Included from the real crate by `#[cfg(kani)] #[path = ...] mod verif_c14_echo;`.
//
// Contract of `DefaultEchoHandler::handle(pkt)` (harness level; `pkt` ranges over every
// `ScionRawPacketView` over at most N bytes -- the view constructor's acceptance is the type
// invariant of the argument and the only assumption):
//
//   handle(pkt) is Some(reply)  <=>  spec_is_answerable_echo_request(bytes)
//       := NextHdr == SCMP(202)  /\  (truncated) payload >= 8 bytes  /\  payload[0] == 128 (EchoRequest)
//          /\ both host address nibbles are a known SCION host type (IPv4 0b0000, IPv6 0b0011, SVC 0b0100)
//          /\ the path can be reversed (empty: always; one-hop: second hop's ingress set;
//             unknown path types: never; standard: see c14_echo_std_*)
//   Some(reply) ==> reply is an SCMP packet whose payload is an EchoReply (type 129, code 0) with the
//       request's identifier, sequence number and data; reply.dst = request.src, reply.src =
//       request.dst (ISD-AS and host); reply path = reversed request path.
//   Every other SCMP type (all error types 1,2,4,5,6, echo reply 129, traceroute 130/131, unknown),
//   truncated SCMP headers and non-SCMP payloads ==> None.   No panic.
#![allow(dead_code)]

use sciparse::{
    address::host_addr::WireHostAddr,
    core::view::View,
    dataplane_path::model::DpPath,
    payload::ProtocolNumber,
};

use super::*;

fn spec_addr_len(nibble: u8) -> usize {
    (((nibble & 0b11) as usize) + 1) * 4
}

fn spec_known_host_type(nibble: u8) -> bool {
    nibble == 0b0000 || nibble == 0b0011 || nibble == 0b0100
}

/// Does the model host address `w` equal the wire host address (nibble, bytes)?
fn host_matches(w: &WireHostAddr, nibble: u8, bytes: &[u8]) -> bool {
    match w {
        WireHostAddr::V4(a) => {
            let o = a.octets();
            nibble == 0b0000 && o[0] == bytes[0] && o[1] == bytes[1] && o[2] == bytes[2] && o[3] == bytes[3]
        }
        WireHostAddr::V6(a) => {
            let o = a.octets();
            let mut eq = nibble == 0b0011;
            let mut i = 0;
            while i < 16 {
                if o[i] != bytes[i] {
                    eq = false;
                }
                i += 1;
            }
            eq
        }
        WireHostAddr::Svc(s) => nibble == 0b0100 && (s.0 >> 8) as u8 == bytes[0] && s.0 as u8 == bytes[1],
        _ => false,
    }
}

fn be64(b: &[u8]) -> u64 {
    let mut v = 0u64;
    let mut i = 0;
    while i < 8 {
        v = (v << 8) | b[i] as u64;
        i += 1;
    }
    v
}

/// `path_reverses`: harness-specific (depends on the path type class the harness fixes).
fn check_echo(d: &[u8], path_reverses: bool) -> Option<ScionRawPacket> {
    let (view, _rest) = match ScionRawPacketView::try_from_slice(d) {
        Ok(x) => x,
        Err(_) => {
            kani::assume(false); // type invariant of the argument: only valid views exist
            unreachable!()
        }
    };
    let pkt = view.as_slice();
    let hdr = (pkt[5] as usize) * 4;
    let dst_nib = pkt[9] >> 4;
    let src_nib = pkt[9] & 0x0f;
    let dl = spec_addr_len(dst_nib);
    let payload = &pkt[hdr..];
    let is_echo_request = pkt[4] == 202 && payload.len() >= 8 && payload[0] == 128;
    let addrs_ok = spec_known_host_type(dst_nib) && spec_known_host_type(src_nib);
    let spec_some = is_echo_request && addrs_ok && path_reverses;

    let reply = DefaultEchoHandler::new().handle(view);

    if !is_echo_request {
        assert!(reply.is_none(), "C14.echo_none: reply to something that is not an SCMP echo request");
    }
    if reply.is_some() {
        assert!(spec_some, "C14.echo_iff: reply although addresses do not decode or the path does not reverse");
    } else {
        assert!(!spec_some, "C14.echo_iff: answerable echo request got no reply");
    }
    if let Some(r) = &reply {
        assert!(r.header.common.next_header == ProtocolNumber::Scmp, "C14.echo_reply: reply is not SCMP");
        // addresses swapped
        assert!(r.header.address.dst_ia.to_u64() == be64(&pkt[20..28]), "C14.echo_addr: reply dst IA != request src IA");
        assert!(r.header.address.src_ia.to_u64() == be64(&pkt[12..20]), "C14.echo_addr: reply src IA != request dst IA");
        assert!(host_matches(&r.header.address.dst_host_addr, src_nib, &pkt[28 + dl..]),
            "C14.echo_addr: reply dst host != request src host");
        assert!(host_matches(&r.header.address.src_host_addr, dst_nib, &pkt[28..]),
            "C14.echo_addr: reply src host != request dst host");
        // payload: echo reply with same id / seq / data
        let rp = &r.payload;
        assert!(rp.len() == payload.len(), "C14.echo_data: reply length differs from request length");
        assert!(rp[0] == 129 && rp[1] == 0, "C14.echo_reply: reply is not an EchoReply (129/0)");
        assert!(rp[4] == payload[4] && rp[5] == payload[5], "C14.echo_data: identifier differs");
        assert!(rp[6] == payload[6] && rp[7] == payload[7], "C14.echo_data: sequence number differs");
        let k: usize = kani::any();
        if k >= 8 && k < payload.len() {
            assert!(rp[k] == payload[k], "C14.echo_data: data byte differs");
        }
    }
    kani::cover!(reply.is_some(), "echo reply produced");
    kani::cover!(reply.is_some() && payload.len() > 8, "echo reply with data");
    kani::cover!(is_echo_request && !addrs_ok, "echo request with undecodable address");
    kani::cover!(pkt[4] == 202 && payload.len() >= 8 && payload[0] == 129, "echo reply input ignored");
    kani::cover!(pkt[4] == 202 && payload.len() >= 8 && payload[0] == 4, "SCMP error input ignored");
    kani::cover!(pkt[4] == 202 && payload.len() >= 8 && payload[0] == 130, "traceroute input ignored");
    kani::cover!(pkt[4] == 202 && payload.len() < 8, "truncated SCMP ignored");
    kani::cover!(pkt[4] != 202 && payload.len() >= 8 && payload[0] == 128, "non-SCMP next header ignored");
    reply
}

fn any_datagram<const N: usize>(buf: &[u8; N]) -> &[u8] {
    let len: usize = kani::any();
    kani::assume(len <= N);
    &buf[..len]
}

/// Requests over the empty path: all packets <= 64 bytes (header 36..60 bytes, echo data up to 20 bytes).
#[kani::proof]
#[kani::unwind(34)]
fn c14_echo_empty_n64() {
    let buf: [u8; 64] = kani::any();
    let d = any_datagram(&buf);
    kani::assume(d.len() >= 12 && d[8] == 0);
    let reply = check_echo(d, true);
    if let Some(r) = reply {
        assert!(matches!(r.header.path, DpPath::Empty), "C14.echo_path: reply to an empty-path request is not an empty path");
    }
}

/// Requests over an unknown / unsupported path type (3, 4, 5..255): never answered (cannot be reversed).
#[kani::proof]
#[kani::unwind(34)]
fn c14_echo_unknown_path_n64() {
    let buf: [u8; 64] = kani::any();
    let d = any_datagram(&buf);
    kani::assume(d.len() >= 12 && d[8] >= 3);
    let reply = check_echo(d, false);
    assert!(reply.is_none(), "C14.echo_iff: reply over a path type that cannot be reversed");
}
