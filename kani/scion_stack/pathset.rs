// Contract module for crates/scion-stack/src/path/manager/pathset.rs (property C06, clause 1).
// Child module of `pathset`: sees the private fn `check_path_expiry` and `ExpiryState`.
//
//   C06.expiry   check_path_expiry(path, now, threshold) classifies exactly:
//                Expired    <=> expiry <= now
//                NearExpiry <=> 0 < expiry - now <= threshold
//                Valid      <=> expiry - now > threshold
//                and never panics (no SystemTime / Duration overflow) for every u32 expiry, every
//                `now` and threshold below 2^33 seconds (year 2242).
// The specification is written in integer nanoseconds (u128), independently of SystemTime.
#![allow(dead_code)]

use sciparse::{
    dataplane_path::view::{ScionDpPathView, ScionDpPathViewRef},
    identifier::isd_asn::IsdAsn,
    path::{fingerprint::data_plane::DpPathFingerprint, metadata::PathMetadata},
};

use super::*;

const NS: u64 = 1_000_000_000;

/// The path fingerprint is a SHA-256; the `sha2` crate selects its implementation through a `cpuid`
/// inline-asm probe, which Kani cannot execute. The fingerprint plays no role in expiry
/// classification, so its constructor is stubbed to a constant.
fn stub_fingerprint(_dp: ScionDpPathViewRef<'_>, _src: IsdAsn, _dst: IsdAsn) -> DpPathFingerprint {
    DpPathFingerprint::from([0u8; 32])
}

/// A path whose expiry is `exp` (taken from the metadata: the empty dataplane path has none).
fn path_with_expiry(exp: u32) -> ScionPath {
    let md = PathMetadata { expiration: exp as u64, mtu: 1400, interfaces: None, epic_auth: None, notes: None };
    ScionPath::new(IsdAsn(0x0001_ff00_0000_0110), IsdAsn(0x0001_ff00_0000_0111), ScionDpPathView::Empty, Some(md), None)
}

#[kani::proof]
#[kani::unwind(34)]
#[kani::stub(sciparse::path::fingerprint::data_plane::DpPathFingerprint::from_dp_path, stub_fingerprint)]
fn c06_expiry_classification() {
    let exp: u32 = kani::any();
    let path = path_with_expiry(exp);
    assert!(path.expiration() == Some(exp), "C06.expiry: harness path does not carry the chosen expiry");

    let now_s: u64 = kani::any();
    let now_ns: u32 = kani::any();
    kani::assume(now_s < (1u64 << 33) && now_ns < 1_000_000_000); // until the year 2242
    let now = SystemTime::UNIX_EPOCH + Duration::new(now_s, now_ns);
    let thr_s: u64 = kani::any();
    let thr_ns: u32 = kani::any();
    kani::assume(thr_s < (1u64 << 33) && thr_ns < 1_000_000_000);
    let threshold = Duration::new(thr_s, thr_ns);

    let got = check_path_expiry(&path, now, threshold);

    let e = exp as u64 * NS;
    let n = now_s * NS + now_ns as u64;
    let t = thr_s * NS + thr_ns as u64;
    let want = if e <= n {
        ExpiryState::Expired
    } else if e - n <= t {
        ExpiryState::NearExpiry
    } else {
        ExpiryState::Valid
    };
    assert!(got == want, "C06.expiry: classification differs from Expired<=>exp<=now, Near<=>0<exp-now<=thr, Valid otherwise");
    kani::cover!(got == ExpiryState::Expired && e == n, "expiry exactly now");
    kani::cover!(got == ExpiryState::NearExpiry && e - n == t, "exactly on the threshold");
    kani::cover!(got == ExpiryState::Valid, "valid");
    kani::cover!(got == ExpiryState::NearExpiry && e - n == 1, "one nanosecond left");
}
