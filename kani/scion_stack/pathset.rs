use super::*;

#[kani::proof]
fn c06_probe() {
    let a: u32 = kani::any();
    assert!(a == a, "C06.probe: trivial");
}
