// Contract module for crates/snap/snap-dataplane/src/tunnel_gateway/gateway.rs (property C08, reply).
// Included from the real crate by `#[cfg(kani)] #[path = ...] mod verif_c08_reply;`.
//
// Contract of `TunnelGateway::create_scmp_error(err, local_addr, dst_addr, target)` for EVERY
// `PacketPolicyError` that `inbound_datagram_check` produces and ANY addresses / target size:
//
//   result is Err(BufferTooSmall(req)) with target.len() < req <= 1232,           or
//   result is Ok(n) with n <= target.len(), n <= 1232, and target[..n] is a SCION packet
//     (NextHdr = SCMP, empty path, dst = dst_addr, src = (dst IA, local_addr)) carrying an SCMP
//     ParameterProblem (type 4) whose quoted part is a prefix of the offending datagram
//     (the whole rejected datagram / parsed packet when it fits) and whose SCMP checksum verifies
//     (`spec_checksum_ok`: RFC 1071 sum over the SCION pseudo header + message, written here);
//   never Err(InvalidStructure); no panic.
//
// Exactly one reply per rejected datagram is structural: the function returns one packet.
#![allow(dead_code)]

use std::{
    net::{IpAddr, Ipv4Addr, Ipv6Addr},
    sync::Arc,
};

use super::*;

struct VDispatcher;
impl Dispatcher for VDispatcher {
    fn try_dispatch(&self, _packet: &ScionPacketView) {}
}
struct VAuthz;
impl SnapTunAuthorization for VAuthz {
    type SessionData = ();
    fn is_authorized(&self, _now: std::time::Instant, _identity: &[u8; 32]) -> Option<Arc<()>> {
        None
    }
}
type VGateway = TunnelGateway<VAuthz, VDispatcher, crate::tunnel_gateway::NoopTunnelGatewayObserver>;

const SPEC_MAX: usize = 1232;

/// RFC 1071 verification over the SCION pseudo header (DstIA, SrcIA, DstHost, SrcHost, upper-layer
/// length u32, 3 zero bytes, next header) + upper layer message of an encoded SCION packet.
fn spec_checksum_ok(pkt: &[u8]) -> bool {
    let hdr_len = (pkt[5] as usize) * 4;
    let dl = ((((pkt[9] >> 4) & 3) as usize) + 1) * 4;
    let sl = (((pkt[9] & 3) as usize) + 1) * 4;
    let addr_end = 12 + 16 + dl + sl;
    if hdr_len < addr_end || hdr_len > pkt.len() {
        return false;
    }
    let msg_len = pkt.len() - hdr_len;
    let mut sum: u32 = 0;
    let mut i = 12;
    while i + 1 < addr_end {
        sum += ((pkt[i] as u32) << 8) | (pkt[i + 1] as u32);
        i += 2;
    }
    sum += ((msg_len >> 16) & 0xffff) as u32;
    sum += (msg_len & 0xffff) as u32;
    sum += pkt[4] as u32;
    let mut j = hdr_len;
    while j + 1 < pkt.len() {
        sum += ((pkt[j] as u32) << 8) | (pkt[j + 1] as u32);
        j += 2;
    }
    if j < pkt.len() {
        sum += (pkt[j] as u32) << 8;
    }
    sum = (sum & 0xffff) + (sum >> 16);
    sum = (sum & 0xffff) + (sum >> 16);
    sum == 0xffff
}

fn any_ip() -> IpAddr {
    if kani::any() {
        IpAddr::V4(Ipv4Addr::from(kani::any::<[u8; 4]>()))
    } else {
        IpAddr::V6(Ipv6Addr::from(kani::any::<[u8; 16]>()))
    }
}

fn any_host() -> ScionHostAddr {
    ScionHostAddr::from_ip(any_ip())
}

fn host_len(h: &ScionHostAddr) -> usize {
    match h {
        ScionHostAddr::V6(_) => 16,
        _ => 4,
    }
}

fn target_of(len: usize) -> Packet {
    let mut p = Packet::default();
    p.buf_mut().resize(len, 0);
    p
}

/// Byte-level contract: every rejected datagram of at most 48 bytes x all peers x any IPv4
/// local/destination address and ISD-AS x any target size <= 160.
#[kani::proof]
#[kani::unwind(60)]
fn c08_reply_bytes_n48() {
    const N: usize = 48;
    let buf: [u8; N] = kani::any();
    let len: usize = kani::any();
    kani::assume(len <= N);
    let d = &buf[..len];
    let peer = any_ip();
    let err = match inbound_datagram_check(d, peer) {
        Ok(_) => return,
        Err(e) => e,
    };
    let offender_len = match &err {
        PacketPolicyError::MalformedPacket(b, _) => b.len(),
        PacketPolicyError::InvalidSourceAddress(v) | PacketPolicyError::InvalidPathType(v, _) => v.as_slice().len(),
    };
    let kind = match &err {
        PacketPolicyError::MalformedPacket(..) => 0u8,
        PacketPolicyError::InvalidSourceAddress(..) => 1,
        PacketPolicyError::InvalidPathType(..) => 2,
    };
    // address families fixed (IPv4 local address, IPv4 peer as destination: header offsets stay
    // concrete), address bytes and ISD-AS symbolic
    let local = ScionHostAddr::V4(Ipv4Addr::from(kani::any::<[u8; 4]>()));
    let dst_host = ScionHostAddr::V4(Ipv4Addr::from(kani::any::<[u8; 4]>()));
    let dst_ia: u64 = kani::any();
    let dst = ScionAddr::new(IsdAsn::from_u64(dst_ia), dst_host);
    let tlen: usize = kani::any();
    kani::assume(tlen <= 160);
    let mut target = target_of(tlen);

    let res = VGateway::create_scmp_error(err, local, dst, &mut target);

    let hdr = 12 + 16 + host_len(&dst_host) + host_len(&local);
    match res {
        Err(EncodeError::BufferTooSmall(req)) => {
            assert!(req > tlen, "C08.reply_fit: BufferTooSmall although the target is large enough");
            assert!(req <= SPEC_MAX, "C08.reply_size: required reply size exceeds 1232 bytes");
            assert!(req == hdr + 8 + offender_len, "C08.reply_quote: required size is not header + 8 + offender");
        }
        Err(_) => {
            assert!(false, "C08.reply_total: reply construction failed with an error other than BufferTooSmall");
        }
        Ok(n) => {
            assert!(n <= tlen, "C08.reply_fit: reply longer than the target buffer");
            assert!(n <= SPEC_MAX, "C08.reply_size: reply longer than 1232 bytes");
            let out: &[u8] = &target[..n];
            assert!(n == hdr + 8 + offender_len, "C08.reply_quote: reply does not quote the whole (short) offender");
            assert!((out[5] as usize) * 4 == hdr && out[8] == 0, "C08.reply_shape: header length / empty path");
            assert!(out[4] == 202, "C08.reply_shape: next header is not SCMP");
            assert!(((out[6] as usize) << 8 | out[7] as usize) == n - hdr, "C08.reply_shape: PayloadLen");
            assert!(out[hdr] == 4, "C08.reply_shape: not an SCMP ParameterProblem");
            let code = out[hdr + 1];
            assert!(
                (kind == 0 && code == 16) || (kind == 1 && code == 33) || (kind == 2 && code == 20),
                "C08.reply_shape: parameter problem code does not match the policy error"
            );
            // destination = requested destination
            let mut ia = 0u64;
            let mut i = 0;
            while i < 8 {
                ia = (ia << 8) | out[12 + i] as u64;
                i += 1;
            }
            assert!(ia == dst_ia, "C08.reply_shape: destination IA differs");
            // quote is a prefix of the offending datagram
            let k: usize = kani::any();
            if k < offender_len {
                assert!(out[hdr + 8 + k] == d[k], "C08.reply_quote: quoted byte differs from the offending datagram");
            }
            assert!(spec_checksum_ok(out), "C08.reply_checksum: SCMP checksum of the reply does not verify");
        }
    }
    kani::cover!(matches!(res, Ok(_)) && kind == 0, "reply for malformed packet");
    kani::cover!(matches!(res, Ok(_)) && kind == 1, "reply for invalid source");
    kani::cover!(matches!(res, Ok(_)) && kind == 2, "reply for invalid path type");
    kani::cover!(matches!(res, Err(EncodeError::BufferTooSmall(_))), "target too small");
    kani::cover!(matches!(res, Ok(_)) && offender_len == N, "longest offender quoted");
}

/// Size budget for long offenders: a malformed datagram of ANY length <= 9216 (the gateway's jumbo
/// buffer; zero bytes -- the reply size depends on the length only) and any addresses. With an empty
/// target the function must report the required size, which is the size the reply would have.
#[kani::proof]
#[kani::unwind(20)]
fn c08_reply_budget_l9216() {
    let len: usize = kani::any();
    kani::assume(len <= PACKET_BUF_SIZE);
    let big = vec![0u8; len];
    let d = &big[..];
    let peer = any_ip();
    let err = match inbound_datagram_check(d, peer) {
        Ok(_) => {
            assert!(false, "C08.accept_sound: all-zero datagram accepted");
            return;
        }
        Err(e) => e,
    };
    let local = any_host();
    let dst_host = any_host();
    let dst = ScionAddr::new(IsdAsn::from_u64(kani::any()), dst_host);
    let mut target = target_of(0);
    let res = VGateway::create_scmp_error(err, local, dst, &mut target);
    let hdr = 12 + 16 + host_len(&dst_host) + host_len(&local);
    match res {
        Err(EncodeError::BufferTooSmall(req)) => {
            assert!(req <= SPEC_MAX, "C08.reply_size: reply for a long offender exceeds 1232 bytes");
            assert!(req >= hdr + 8, "C08.reply_size: reply shorter than SCION header + SCMP header");
            assert!(req - hdr - 8 <= len, "C08.reply_quote: quote longer than the offender");
            if hdr + 8 + len <= SPEC_MAX {
                assert!(req == hdr + 8 + len, "C08.reply_quote: offender fits but is not quoted completely");
            }
            kani::cover!(req == SPEC_MAX, "budget exhausted");
            kani::cover!(req < SPEC_MAX, "short reply");
        }
        _ => {
            assert!(false, "C08.reply_fit: empty target accepted or wrong error");
        }
    }
    kani::cover!(len == PACKET_BUF_SIZE, "jumbo offender");
}

/// `create_inbound_scmp_error` is total on EVERY error `inbound_datagram_check` produces -- also for
/// truncated datagrams, where the parsed packet view is shorter than header length + announced
/// payload length -- and the message it builds is a ParameterProblem quoting a prefix of the
/// offending datagram, with a pointer inside the SCION header.
/// (Added after seeded change C08-2, which indexed the view by its announced instead of its real
/// length on this path.)
#[kani::proof]
#[kani::unwind(18)]
fn c08_inbound_error_total_n64() {
    const N: usize = 64;
    let buf: [u8; N] = kani::any();
    let len: usize = kani::any();
    kani::assume(len <= N);
    let d = &buf[..len];
    let peer = any_ip();
    let err = match inbound_datagram_check(d, peer) {
        Ok(_) => return,
        Err(e) => e,
    };
    let truncated_view = match &err {
        PacketPolicyError::MalformedPacket(..) => false,
        PacketPolicyError::InvalidSourceAddress(v) | PacketPolicyError::InvalidPathType(v, _) => {
            (v.header().header_len() as usize + v.header().payload_len() as usize) > v.as_slice().len()
        }
    };
    let msg = create_inbound_scmp_error(err);
    match msg {
        scmp::model::ScmpMessage::ParameterProblem(p) => {
            let q = p.get_offending_packet();
            assert!(q.len() <= len, "C08.reply_quote: quote longer than the offending datagram");
            let i: usize = kani::any();
            kani::assume(i < q.len());
            assert!(q[i] == buf[i], "C08.reply_quote: quote is not a prefix of the offending datagram");
            assert!((p.pointer as usize) < 1020, "C08.reply_pointer: pointer outside any SCION header");
            kani::cover!(truncated_view, "error for a datagram whose payload is truncated");
            kani::cover!(q.len() == len && len > 36, "whole datagram quoted");
        }
        _ => assert!(false, "C08.reply_kind: reply is not a ParameterProblem"),
    }
}
