// Contract module for crates/snap/snap-dataplane/src/tunnel_gateway/packet_policy.rs (property C08).
// Included from the real crate by `#[cfg(kani)] #[path = ...] mod verif_c08_policy;`.
//
// Contract (DESIGN.md §3/C08), harness level because the result borrows the input:
//
//     inbound_datagram_check(d, ip) == Ok(v)  <=>  spec_accept(d, ip).is_some()
//     Ok(v)  ==>  v.as_slice() is the prefix d[..spec_accept(d, ip)] of d (same memory)
//     Err(e) ==>  the bytes carried by e are d itself / a prefix of d (what the reply will quote)
//     no panic, no out-of-bounds read in the unsafe view code
//
// `spec_accept` is an independent decision procedure written from the SCION header wire format
// (draft-dekater-scion-dataplane §2: common header 12 B, address header 16 B + host addresses,
// path) with explicit byte arithmetic. It calls nothing from sciparse.
#![allow(dead_code)]

use std::net::{Ipv4Addr, Ipv6Addr};

use super::*;

/// Length of a host address announced by a 4-bit (type:2, len:2) nibble: (len + 1) * 4.
fn spec_addr_len(nibble: u8) -> usize {
    (((nibble & 0b11) as usize) + 1) * 4
}

/// Independent specification of "is dispatched into the SCION network".
/// Returns the length of the accepted packet (header + announced payload, cut at the datagram end).
pub(super) fn spec_accept(d: &[u8], ip: IpAddr) -> Option<usize> {
    let len = d.len();
    // common header
    if len < 12 {
        return None;
    }
    if d[0] >> 4 != 0 {
        return None; // version
    }
    let hdr_len = (d[5] as usize) * 4;
    let payload_len = ((d[6] as usize) << 8) | (d[7] as usize);
    let path_type = d[8];
    let dst_nibble = d[9] >> 4;
    let src_nibble = d[9] & 0x0f;
    let dl = spec_addr_len(dst_nibble);
    let sl = spec_addr_len(src_nibble);
    // address header: DstIA(8) SrcIA(8) DstHost(dl) SrcHost(sl)
    let addr_end = 12 + 16 + dl + sl;
    if len < addr_end {
        return None;
    }
    // path: only empty (0) and standard SCION (1) paths are admitted
    let path_len = match path_type {
        0 => 0usize,
        1 => {
            if len < addr_end + 4 {
                return None;
            }
            // PathMeta: C(2) CurrHF(6) RSV(6) Seg0Len(6) Seg1Len(6) Seg2Len(6)
            let meta = ((d[addr_end] as u32) << 24)
                | ((d[addr_end + 1] as u32) << 16)
                | ((d[addr_end + 2] as u32) << 8)
                | (d[addr_end + 3] as u32);
            let s0 = ((meta >> 12) & 0x3f) as usize;
            let s1 = ((meta >> 6) & 0x3f) as usize;
            let s2 = (meta & 0x3f) as usize;
            let infos = (s0 != 0) as usize + (s1 != 0) as usize + (s2 != 0) as usize;
            4 + 8 * infos + 12 * (s0 + s1 + s2)
        }
        _ => return None,
    };
    let total = addr_end + path_len;
    if total > len || total != hdr_len {
        return None;
    }
    // source host = tunnel peer; only the two IP encodings (T,L) = (0,0) IPv4 and (0,3) IPv6 count
    let src_off = 12 + 16 + dl;
    let src_ok = match ip {
        IpAddr::V4(a) => {
            let o = a.octets();
            src_nibble == 0b0000
                && d[src_off] == o[0]
                && d[src_off + 1] == o[1]
                && d[src_off + 2] == o[2]
                && d[src_off + 3] == o[3]
        }
        IpAddr::V6(a) => {
            let o = a.octets();
            let mut eq = src_nibble == 0b0011;
            let mut i = 0;
            while i < 16 {
                if eq && d[src_off + i] != o[i] {
                    eq = false;
                }
                i += 1;
            }
            eq
        }
    };
    if !src_ok {
        return None;
    }
    Some(core::cmp::min(hdr_len + payload_len, len))
}

pub(super) fn any_ip() -> IpAddr {
    if kani::any() {
        IpAddr::V4(Ipv4Addr::from(kani::any::<[u8; 4]>()))
    } else {
        IpAddr::V6(Ipv6Addr::from(kani::any::<[u8; 16]>()))
    }
}

fn check_decision<const N: usize>() {
    let buf: [u8; N] = kani::any();
    let len: usize = kani::any();
    kani::assume(len <= N);
    let d = &buf[..len];
    let ip = any_ip();

    let spec = spec_accept(d, ip);
    let res = inbound_datagram_check(d, ip);

    match &res {
        Ok(v) => {
            assert!(spec.is_some(), "C08.accept_sound: accepted datagram does not satisfy the ingress specification");
            let s = v.as_slice();
            assert!(s.as_ptr() == d.as_ptr(), "C08.prefix: accepted view does not start at the datagram start");
            assert!(s.len() <= d.len(), "C08.prefix: accepted view longer than the datagram");
            if let Some(n) = spec {
                assert!(s.len() == n, "C08.prefix: accepted view length differs from header + payload length");
            }
        }
        Err(e) => {
            assert!(spec.is_none(), "C08.accept_complete: conforming datagram rejected");
            match e {
                PacketPolicyError::MalformedPacket(b, _) => {
                    assert!(b.as_ptr() == d.as_ptr() && b.len() == d.len(),
                        "C08.err_bytes: malformed-packet error does not carry the datagram");
                }
                PacketPolicyError::InvalidSourceAddress(v) | PacketPolicyError::InvalidPathType(v, _) => {
                    let s = v.as_slice();
                    assert!(s.as_ptr() == d.as_ptr() && s.len() <= d.len(),
                        "C08.err_bytes: policy error does not carry a prefix of the datagram");
                }
            }
        }
    }

    // outcome classes
    kani::cover!(matches!(res, Ok(_)) && matches!(ip, IpAddr::V4(_)), "accepted, v4 peer");
    kani::cover!(matches!(res, Ok(_)) && matches!(ip, IpAddr::V6(_)), "accepted, v6 peer");
    kani::cover!(matches!(res, Ok(_)) && d[8] == 1, "accepted, standard path");
    kani::cover!(matches!(res, Ok(_)) && d[8] == 0, "accepted, empty path");
    kani::cover!(matches!(res, Err(PacketPolicyError::MalformedPacket(..))), "malformed");
    kani::cover!(matches!(res, Err(PacketPolicyError::InvalidSourceAddress(..))), "invalid source");
    kani::cover!(matches!(res, Err(PacketPolicyError::InvalidPathType(..))), "invalid path type");
    kani::cover!(matches!(res, Err(PacketPolicyError::InvalidSourceAddress(..))) && len >= 12 && (d[9] & 0xf) == 0b0100,
        "service source address rejected");
    kani::cover!(matches!(res, Err(PacketPolicyError::InvalidSourceAddress(..))) && len >= 12 && (d[9] & 0xf) == 0b0111,
        "unknown 16-byte source address type rejected");
    kani::cover!(matches!(res, Err(PacketPolicyError::InvalidPathType(..))) && d[8] == 2, "one-hop path rejected");
}

/// All datagrams of at most 120 bytes (all bytes symbolic, symbolic length) x all peer addresses.
#[kani::proof]
#[kani::unwind(18)]
fn c08_decision_n120() {
    check_decision::<120>();
}

/// A v4-mapped IPv6 peer address never matches an IPv4 source host, and an IPv4 peer never matches
/// an IPv6 source: whenever a datagram is accepted the source type nibble fits the peer's family.
#[kani::proof]
#[kani::unwind(18)]
fn c08_family_n52() {
    let buf: [u8; 52] = kani::any();
    let len: usize = kani::any();
    kani::assume(len <= 52);
    let d = &buf[..len];
    let v4: [u8; 4] = kani::any();
    let mapped = IpAddr::V6(Ipv4Addr::from(v4).to_ipv6_mapped());
    let plain = IpAddr::V4(Ipv4Addr::from(v4));
    let r_mapped = inbound_datagram_check(d, mapped);
    let r_plain = inbound_datagram_check(d, plain);
    if r_mapped.is_ok() {
        assert!((d[9] & 0x0f) == 0b0011, "C08.family: v4-mapped v6 peer matched a non-IPv6 source host");
    }
    if r_plain.is_ok() {
        assert!((d[9] & 0x0f) == 0b0000, "C08.family: v4 peer matched a non-IPv4 source host");
    }
    assert!(!(r_mapped.is_ok() && r_plain.is_ok()), "C08.family: one datagram accepted for both the v4 peer and its v4-mapped form");
    kani::cover!(r_mapped.is_ok(), "accepted for mapped peer");
    kani::cover!(r_plain.is_ok(), "accepted for plain v4 peer");
}
