//! C10 — claims side (snap-tokens): `exp_time()` is total, and the claims required at the JWT
//! validation layer are required by every supported claims version.
//!
//! Hooked at the end of `v1.rs` (child of `v1`, so the private `private_claims` field is visible
//! and claims values can be built without `Uuid::new_v4()` randomness).

use super::*;
use crate::{AnyClaims, v0};

/// 9999-12-31T23:59:59Z — every `exp` up to here must be represented exactly.
const EXACT_UP_TO: u64 = 253_402_300_799;

fn check_exp_time(c: AnyClaims, exp: u64) {
    // totality: no "overflow when adding duration to instant" panic for any u64
    let t = c.exp_time();
    assert!(t >= SystemTime::UNIX_EPOCH, "C10.exptime: expiry is not before the epoch");
    if exp <= EXACT_UP_TO {
        assert!(
            t == SystemTime::UNIX_EPOCH + std::time::Duration::from_secs(exp),
            "C10.exptime: exp_time() is epoch + exp seconds"
        );
    } else {
        // never later than the token's own expiry would be
        assert!(
            t >= SystemTime::UNIX_EPOCH + std::time::Duration::from_secs(EXACT_UP_TO),
            "C10.exptime: out-of-range expiries are not mapped into the past"
        );
    }
    kani::cover!(exp == u64::MAX, "largest exp");
    kani::cover!(exp == 0, "smallest exp");
    std::mem::forget(c);
}

#[kani::proof]
fn c10_exp_time_total_v0() {
    let exp: u64 = kani::any();
    let c = v0::SnapTokenClaims { pssid: v0::Pssid(Uuid::nil()), exp, jti: String::new() };
    check_exp_time(AnyClaims::V0(c), exp);
}

#[kani::proof]
fn c10_exp_time_total_v1() {
    let exp: u64 = kani::any();
    let c = SnapTokenClaims {
        ver: 1,
        iss: String::new(),
        aud: String::new(),
        exp,
        nbf: kani::any(),
        iat: kani::any(),
        jti: String::new(),
        pssid: Pssid(Uuid::nil()),
        private_claims: BTreeMap::new(),
    };
    check_exp_time(AnyClaims::V1(c), exp);
}

fn str_eq(a: &str, b: &str) -> bool {
    let (a, b) = (a.as_bytes(), b.as_bytes());
    if a.len() != b.len() {
        return false;
    }
    let mut i = 0;
    while i < a.len() {
        if a[i] != b[i] {
            return false;
        }
        i += 1;
    }
    true
}

fn has(v: &[&'static str], needle: &str) -> bool {
    let mut found = false;
    let mut i = 0;
    while i < v.len() {
        if str_eq(v[i], needle) {
            found = true;
        }
        i += 1;
    }
    found
}

/// The claims enforced for every token (`AnyClaims::required_claims`, fed into the validation
/// profile) contain `exp` and are required by each supported version.
#[kani::proof]
#[kani::unwind(10)]
fn c10_required_claims_common() {
    let any = <AnyClaims as Token>::required_claims();
    let r0 = <v0::SnapTokenClaims as Token>::required_claims();
    let r1 = <SnapTokenClaims as Token>::required_claims();
    assert!(has(&any, "exp"), "C10.required: exp is required for every version");
    let i: usize = kani::any();
    kani::assume(i < any.len());
    assert!(has(&r0, any[i]), "C10.required: commonly required claims are required by v0");
    assert!(has(&r1, any[i]), "C10.required: commonly required claims are required by v1");
    assert!(has(&r1, "nbf") && has(&r1, "aud") && has(&r1, "exp"), "C10.required: v1 requires exp, nbf and aud");
    kani::cover!(any.len() >= 2, "exp and pssid");
}
