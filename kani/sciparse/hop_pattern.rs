// Contract module for property C16 (hop patterns, depth-1 shapes only): included from
// crates/libs/sciparse/src/scion/path/policy/hop_pattern.rs by
//   #[cfg(kani)] #[path = "/verif/kani/sciparse/hop_pattern.rs"] mod verif_hop_pattern;
// (child module: sees the private `HopPatternExpression`).
//
// Contract that carries the semantic clause:  match_from(hops, p) == { q | hops[p..q] in L(e) }
// with L the denotational semantics of the documented operators, and
// HopPatternPolicy([e]).matches(hops) == (hops in L(e)).
// Only the five depth-1 shapes a, a?, a+, a*, a|b are instantiated (symbolic leaves, <= 3 hops);
// nested repetition is NOT decided (BTreeSet position sets are intractable for CBMC, DESIGN 3/C16).
#![allow(dead_code)]

use super::*;
use crate::{
    identifier::{asn::Asn, isd::Isd, isd_asn::IsdAsn},
    path::policy::types::{InterfacePredicate, InterfacesPredicate},
};

const MAXH: usize = 3;

fn any_pred() -> HopPredicate {
    let asn = if kani::any() {
        let a: u64 = kani::any();
        kani::assume(a <= 0xffff_ffff_ffff);
        Some(Asn(a))
    } else {
        None
    };
    let k: u8 = kani::any();
    kani::assume(k < 3);
    let interfaces = match k {
        0 => InterfacesPredicate::Any,
        1 => InterfacesPredicate::Either(InterfacePredicate::new(kani::any())),
        _ => InterfacesPredicate::Both {
            ingress: InterfacePredicate::new(kani::any()),
            egress: InterfacePredicate::new(kani::any()),
        },
    };
    HopPredicate { isd: Isd(kani::any()), asn, interfaces }
}

fn any_hop() -> PathPolicyHop {
    PathPolicyHop { isd_asn: IsdAsn(kani::any()), ingress: kani::any(), egress: kani::any() }
}

#[derive(Clone, Copy)]
enum Shape {
    Leaf,
    Opt,
    Plus,
    Star,
    Or,
}

/// all hops in [p, q) match predicate a (the leaf semantics itself is under contract in policy_acl.rs)
fn all_match(hops: &[PathPolicyHop], p: usize, q: usize, a: &HopPredicate) -> bool {
    let mut i = 0;
    let mut ok = true;
    while i < MAXH {
        if i >= p && i < q && !hops[i].matches(a) {
            ok = false;
        }
        i += 1;
    }
    ok
}

/// hops[p..q] in L(e), written from the operator documentation
fn in_lang(shape: Shape, a: &HopPredicate, b: &HopPredicate, hops: &[PathPolicyHop], p: usize, q: usize) -> bool {
    if q < p || q > hops.len() {
        return false;
    }
    let one_a = q == p + 1 && hops[p].matches(a);
    match shape {
        Shape::Leaf => one_a,
        Shape::Opt => q == p || one_a,
        Shape::Plus => q > p && all_match(hops, p, q, a),
        Shape::Star => all_match(hops, p, q, a),
        Shape::Or => one_a || (q == p + 1 && hops[p].matches(b)),
    }
}

fn build(shape: Shape, a: HopPredicate, b: HopPredicate) -> HopPatternExpression {
    let la = Box::new(HopPatternExpression::HopPredicate(a));
    match shape {
        Shape::Leaf => HopPatternExpression::HopPredicate(a),
        Shape::Opt => HopPatternExpression::Optional(la),
        Shape::Plus => HopPatternExpression::OneOrMore(la),
        Shape::Star => HopPatternExpression::ZeroOrMore(la),
        Shape::Or => HopPatternExpression::Or(la, Box::new(HopPatternExpression::HopPredicate(b))),
    }
}

fn shape_contract(shape: Shape) {
    let a = any_pred();
    let b = any_pred();
    let hops_arr: [PathPolicyHop; MAXH] = [any_hop(), any_hop(), any_hop()];
    let m: usize = kani::any();
    kani::assume(m <= MAXH);
    let hops = &hops_arr[..m];
    let e = build(shape, a, b);
    let p: usize = kani::any();
    kani::assume(p <= m);
    let set = e.match_from(hops, p);
    let q: usize = kani::any();
    kani::assume(q <= m + 1);
    assert!(set.contains(&q) == in_lang(shape, &a, &b, hops, p, q), "C16.hp-match-from: match_from(hops, p) differs from the set of q with hops[p..q] in L(e)");
    kani::cover!(set.contains(&q) && q > p, "non-empty match");
    kani::cover!(!set.contains(&q) && q > p && q <= m, "no match at q");
    let pol = HopPatternPolicy(vec![e]);
    let r = pol.matches(hops);
    assert!(r == in_lang(shape, &a, &b, hops, 0, m), "C16.hp-policy: HopPatternPolicy::matches differs from `hops in L(e)`");
    kani::cover!(r, "policy accepts");
    kani::cover!(!r, "policy rejects");
    core::mem::forget(pol);
    core::mem::forget(set);
}

#[kani::proof]
#[kani::unwind(7)]
fn c16_hp_shape_leaf() {
    shape_contract(Shape::Leaf);
}

#[kani::proof]
#[kani::unwind(7)]
fn c16_hp_shape_opt() {
    shape_contract(Shape::Opt);
}

#[kani::proof]
#[kani::unwind(7)]
fn c16_hp_shape_plus() {
    shape_contract(Shape::Plus);
}

#[kani::proof]
#[kani::unwind(7)]
fn c16_hp_shape_star() {
    shape_contract(Shape::Star);
}

#[kani::proof]
#[kani::unwind(7)]
fn c16_hp_shape_or() {
    shape_contract(Shape::Or);
}
