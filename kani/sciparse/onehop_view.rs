// Contract module for crates/libs/sciparse/src/proto/dataplane_path/onehop/view.rs and
// onehop/model.rs (properties C11 one-hop clause, C12 one-hop clause).  Included by
//   #[cfg(kani)] #[path = "/verif/kani/sciparse/onehop_view.rs"] mod verif_onehop_view;
// at the end of onehop/view.rs.  The view is a fixed 32-byte array and every function under
// contract is loop-free apart from loops over the two hop fields / the six MAC bytes, so all
// harnesses here quantify over the complete input domain (class P).
//
// AES-CMAC is replaced by an *uninterpreted* function for the chaining contract: the stub
// records its arguments and returns a fresh symbolic value, so the contract states "the MAC
// stored is whatever calculate_hop_mac returns for exactly this authenticated tuple".
#![allow(dead_code)]

use super::*;
use crate::{
    core::{convert::ToModel, encode::WireEncode},
    dataplane_path::{
        onehop::model::OneHopPath,
        standard::{
            model::{HopField, InfoField},
            types::{HopFieldFlags, HopFieldMac},
            view::StandardPathView,
        },
    },
};

const SZ: usize = 32;

fn be16(b: &[u8], o: usize) -> u16 {
    u16::from_be_bytes([b[o], b[o + 1]])
}
fn be32(b: &[u8], o: usize) -> u32 {
    u32::from_be_bytes([b[o], b[o + 1], b[o + 2], b[o + 3]])
}

// ------------------------------------------------------------------------------------------
// try_reverse: atomicity, spec, involution (view)
// ------------------------------------------------------------------------------------------

#[kani::proof]
fn c12_onehop_view_reverse() {
    let before: [u8; SZ] = kani::any();
    let mut v = OneHopPathView(before);
    let r = v.try_reverse();
    let i = kani::any_where(|i: &usize| *i < SZ);
    match r {
        Err(_) => {
            kani::cover!(true, "one-hop reversal Err");
            assert!(be16(&before, 20 + 2) == 0, "C12.total: one-hop reversal fails only if the second hop is unset");
            assert!(v.0[i] == before[i], "C12.atomic: OneHopPathView::try_reverse Err leaves every byte unchanged");
        }
        Ok(()) => {
            kani::cover!(true, "one-hop reversal Ok");
            assert!(be16(&before, 20 + 2) != 0, "C12.total: one-hop reversal succeeds iff the second hop is set");
            let expect = if i == 0 {
                before[0] ^ 0x01
            } else if i < 8 {
                before[i]
            } else if i < 20 {
                before[i + 12]
            } else {
                before[i - 12]
            };
            assert!(v.0[i] == expect, "C12.rev-spec: one-hop reversal swaps the hop fields and toggles CONS_DIR, nothing else");
            let mid = v.0;
            let r2 = v.try_reverse();
            kani::cover!(r2.is_ok(), "second one-hop reversal Ok");
            kani::cover!(r2.is_err(), "second one-hop reversal Err (first hop has ConsIngress 0)");
            match r2 {
                Ok(()) => assert!(v.0[i] == before[i], "C12.involution: one-hop reverse(reverse(p)) == p"),
                Err(_) => assert!(v.0[i] == mid[i], "C12.atomic: OneHopPathView::try_reverse Err leaves every byte unchanged"),
            }
        }
    }
}

// ------------------------------------------------------------------------------------------
// expiration: total, saturating like the standard view
// ------------------------------------------------------------------------------------------

#[kani::proof]
#[kani::unwind(4)]
fn c12_onehop_expiration_total() {
    let b: [u8; SZ] = kani::any();
    let v = OneHopPathView(b);
    let e = v.expiration(); // C12.total: must not panic / overflow (Kani arithmetic checks)
    let ts = be32(&b, 4);
    let (x1, x2) = (b[8 + 1], b[20 + 1]);
    let m = if x1 < x2 { x1 } else { x2 };
    let secs: u32 = (675 * (m as u32 + 1)) / 2; // floor((m+1) * 337.5 s)
    kani::cover!(ts > u32::MAX - 400, "timestamp close to u32::MAX");
    kani::cover!(ts == 0, "timestamp zero");
    assert!(e == ts.saturating_add(secs), "C12.agree-exp: one-hop expiry = timestamp + min ExpTime duration, saturating like the standard path");
}

#[kani::proof]
#[kani::unwind(4)]
fn c12_onehop_expiration_agrees_with_standard() {
    // the same info field and hop fields presented as a one-segment standard path
    let b: [u8; SZ] = kani::any();
    let v = OneHopPathView(b);
    let mut s = [0u8; 4 + SZ];
    s[2] = 0x20; // Seg0Len = 2 (bits 14..20)
    s[4..].copy_from_slice(&b);
    let Ok((sv, _)) = StandardPathView::try_from_slice(&s) else {
        assert!(false, "C12.agree-exp: the one-segment standard form is accepted");
        return;
    };
    assert!(sv.hop_field_count() == 2 && sv.info_field_count() == 1, "C12.agree-exp: standard form has the same fields");
    let es = sv.expiration();
    let ts = be32(&b, 4);
    kani::cover!(ts > u32::MAX - 400, "timestamp close to u32::MAX");
    let eo = v.expiration();
    assert!(eo == es, "C12.agree-exp: one-hop view and standard view compute the same expiry for the same fields");
}

// ------------------------------------------------------------------------------------------
// set_second_hop: frame + MAC chaining tuple (AES-CMAC uninterpreted)
// ------------------------------------------------------------------------------------------

static mut MAC_CALLS: u32 = 0;
static mut A_BETA: u16 = 0;
static mut A_TS: u32 = 0;
static mut A_EXP: u8 = 0;
static mut A_IN: u16 = 0;
static mut A_EG: u16 = 0;
static mut A_KEY: [u8; 16] = [0; 16];
static mut A_RET: [u8; 6] = [0; 6];

fn uninterpreted_hop_mac(beta: u16, ts: u32, exp: u8, cin: u16, ceg: u16, key: &ForwardingKey) -> [u8; 6] {
    let r: [u8; 6] = kani::any();
    unsafe {
        MAC_CALLS += 1;
        A_BETA = beta;
        A_TS = ts;
        A_EXP = exp;
        A_IN = cin;
        A_EG = ceg;
        A_KEY = *key;
        A_RET = r;
    }
    r
}

#[kani::proof]
#[kani::stub(crate::proto::dataplane_path::standard::mac::algo::calculate_hop_mac, uninterpreted_hop_mac)]
#[kani::unwind(17)]
fn c11_onehop_set_second_hop() {
    let before: [u8; SZ] = kani::any();
    let mut v = OneHopPathView(before);
    let ingress: u16 = kani::any();
    let key: [u8; 16] = kani::any();
    let advanced: bool = kani::any();
    v.set_second_hop(ingress, key, advanced);
    let after = v.0;
    kani::cover!(advanced, "SegID already advanced");
    kani::cover!(!advanced, "SegID still at the first hop");
    // frame: only ExpTime, ConsIngress, ConsEgress, MAC of the second hop field
    let i = kani::any_where(|i: &usize| *i < SZ);
    if i <= 20 {
        assert!(after[i] == before[i], "C11.onehop-frame: set_second_hop writes only the second hop field (not its flags)");
    }
    assert!(after[21] == before[8 + 1], "C11.onehop: second hop ExpTime copied from the first hop");
    assert!(be16(&after, 22) == ingress, "C11.onehop: second hop ConsIngress = ingress interface");
    assert!(be16(&after, 24) == 0, "C11.onehop: second hop ConsEgress = 0");
    // MAC: exactly one evaluation, on exactly the authenticated tuple, with the chaining value
    let segid = be16(&before, 2);
    let sigma = be16(&before, 8 + 6);
    let beta = if advanced { segid } else { segid ^ sigma };
    unsafe {
        assert!(MAC_CALLS == 1, "C11.onehop-mac: one MAC evaluation");
        assert!(A_BETA == beta, "C11.onehop-mac: chaining value is SegID (advanced) or SegID ^ mac1[0..2]");
        assert!(A_TS == be32(&before, 4), "C11.onehop-mac: timestamp of the info field");
        assert!(A_EXP == before[8 + 1] && A_IN == ingress && A_EG == 0, "C11.onehop-mac: authenticated tuple of the second hop as stored");
        let k = kani::any_where(|k: &usize| *k < 16);
        assert!(A_KEY[k] == key[k], "C11.onehop-mac: the given forwarding key");
        let j = kani::any_where(|j: &usize| *j < 6);
        assert!(after[26 + j] == A_RET[j], "C11.onehop-mac: the stored MAC is the computed MAC");
    }
}

// ------------------------------------------------------------------------------------------
// view / model agreement (one-hop)
// ------------------------------------------------------------------------------------------

fn any_hop() -> HopField {
    HopField {
        flags: HopFieldFlags::from_bits_retain(kani::any()),
        expiration_units: kani::any(),
        cons_ingress: kani::any(),
        cons_egress: kani::any(),
        mac: HopFieldMac(kani::any()),
    }
}
fn hop_eq(a: &HopField, b: &HopField) -> bool {
    let mut m = true;
    let mut i = 0;
    while i < 6 {
        m &= a.mac.0[i] == b.mac.0[i];
        i += 1;
    }
    m && a.flags.bits() == b.flags.bits()
        && a.expiration_units == b.expiration_units
        && a.cons_ingress == b.cons_ingress
        && a.cons_egress == b.cons_egress
}
fn model_eq(a: &OneHopPath, b: &OneHopPath) -> bool {
    a.info.flags.bits() == b.info.flags.bits()
        && a.info.segment_id == b.info.segment_id
        && a.info.timestamp == b.info.timestamp
        && hop_eq(&a.hops[0], &b.hops[0])
        && hop_eq(&a.hops[1], &b.hops[1])
}

#[kani::proof]
#[kani::unwind(8)]
fn c12_onehop_agree_reverse() {
    let m0 = OneHopPath {
        info: InfoField {
            flags: InfoFieldFlags::from_bits_retain(kani::any()),
            segment_id: kani::any(),
            timestamp: kani::any(),
        },
        hops: [any_hop(), any_hop()],
    };
    let mut bytes = [0u8; SZ];
    assert!(m0.try_encode(&mut bytes) == Ok(SZ), "C12.agree-conv: every one-hop model encodes to 32 bytes");
    let Ok((view, rest)) = OneHopPathView::try_from_mut_slice(&mut bytes) else {
        assert!(false, "C12.agree-conv: the encoding is accepted by the view constructor");
        return;
    };
    assert!(rest.is_empty(), "C12.agree-conv: the view covers exactly the encoding");
    assert!(model_eq(&view.to_model(), &m0), "C12.agree-conv: to_model(encode(m)) == m (one-hop)");

    let mut m = m0.clone();
    let rm = m.try_reverse();
    let rv = view.try_reverse();
    kani::cover!(rm.is_ok(), "model reversal Ok");
    kani::cover!(rm.is_err(), "model reversal Err");
    assert!(rm.is_ok() == rv.is_ok(), "C12.agree-rev: one-hop view and model reversal agree on Ok/Err");
    if rm.is_err() {
        assert!(model_eq(&m, &m0), "C12.atomic: OneHopPath::try_reverse Err leaves the model unchanged");
    }
    let mut b2 = [0u8; SZ];
    assert!(m.try_encode(&mut b2) == Ok(SZ), "C12.agree-conv: every one-hop model encodes to 32 bytes");
    let i = kani::any_where(|i: &usize| *i < SZ);
    assert!(b2[i] == view.0[i], "C12.agree-rev: encode(model.try_reverse()) == bytes(view.try_reverse()) (one-hop)");
}
