// Contract module for crates/libs/sciparse/src/scion/path/combinator/graph.rs and
// segment.rs::update_macs (property C01; only the per-function contracts K1 and K2 of DESIGN.md
// §3/C01 are discharged here, the build+walk composition is NOT - see C01.py not_decided).
//
//   C01.segid-init   SolutionEdge::initialize_segment_id == β at the first hop in travel direction
//                    (cons-dir from shortcut s: β_s; against cons-dir: β_{n-1}; one step further
//                    when that first hop is a peer hop), never indexes out of range
//   C01.mac-chain    AsEntry::update_macs (through the real add_unsigned_entry): MAC_i =
//                    calculate_hop_mac(β_i, ts, exp_i, in_i, eg_i, key_i), β_(i+1) = β_i ^ MAC_i[0..2]
//   C01.peer-chain   peer hop fields of entry i are chained with β_(i+1) (SCION: extender.go
//                    `peerBeta := extendBeta(beta, hopEntry.HopField.MAC)`), which is what
//                    initialize_segment_id assumes for peer edges        [fails: finding F-peer]
// `calculate_hop_mac` (AES-128-CMAC) is replaced by a cheap deterministic mixing function: the
// obligations only use that the MAC is a function of (β, ts, exp, in, eg, key).
#![allow(dead_code, unused_imports)]

use super::verif_c04_graph::*;
use super::*;
use crate::dataplane_path::standard::mac::ForwardingKey;
use crate::scion::segment::verif_c18_signed::mk_segment;
use crate::segment::{AsEntry, UnsignedPathSegment};

fn stub_mac(beta: u16, ts: u32, exp: u8, ing: u16, eg: u16, key: &ForwardingKey) -> [u8; 6] {
    let k = u64::from_be_bytes([key[0], key[1], key[2], key[3], key[4], key[5], key[6], key[7]])
        ^ u64::from_be_bytes([key[8], key[9], key[10], key[11], key[12], key[13], key[14], key[15]]);
    let x = ((beta as u64) << 48) ^ ((ts as u64) << 16) ^ ((exp as u64) << 8) ^ ((ing as u64) << 32) ^ (eg as u64);
    let m = (x ^ k).rotate_left(17) ^ x.wrapping_add(k);
    let b = m.to_be_bytes();
    [b[0], b[1], b[2], b[3], b[4], b[5]]
}

fn beta(seg: &PathSegment<AsEntry>, j: usize) -> u16 {
    let mut b = seg.info().segment_id;
    let mut i = 0;
    while i < j {
        let m = seg.as_entries[i].hop_entry.hop_field.mac.0;
        b ^= u16::from_be_bytes([m[0], m[1]]);
        i += 1;
    }
    b
}

/// K2 on a segment of 3 ARBITRARY entries (arbitrary MACs), edge as produced by add_*_segment.
#[kani::proof]
#[kani::unwind(6)]
fn c01_segid_init_l3() {
    const L: usize = 3;
    let pseg = any_segment(L, 1);
    let is_core: bool = kani::any();
    let seg = if is_core { InputSegment::Core(&pseg, SegmentID::from([0u8; 32])) } else { InputSegment::NonCore(&pseg, SegmentID::from([0u8; 32])) };
    let edge = any_wf_edge(L, 1, is_core);
    let dst = any_vertex();
    let e = SolutionEdge { edge, src: any_vertex(), dst, segment: &seg };
    let got = e.initialize_segment_id();
    let cons_dir = match dst {
        Vertex::AS(ia) => ia == pseg.as_entries[L - 1].local,
        _ => false,
    };
    let first = if cons_dir { edge.shortcut_idx } else { L - 1 };
    let first_is_peer_hop = edge.peer.is_some() && first == edge.shortcut_idx;
    let want = if first_is_peer_hop { beta(&pseg, first + 1) } else { beta(&pseg, first) };
    assert!(got == want, "C01.segid-init: initial SegID is β at the first traversed hop (β of the next entry for a peer hop)");
    kani::cover!(cons_dir && edge.shortcut_idx == 1 && edge.peer.is_none(), "cons-dir shortcut");
    kani::cover!(!cons_dir && edge.peer.is_some() && edge.shortcut_idx == 2, "reverse, peer hop first");
    kani::cover!(cons_dir && edge.peer.is_some(), "cons-dir peer");
}

fn build_l2(keys: &[ForwardingKey; 2]) -> PathSegment<AsEntry> {
    let mut seg = UnsignedPathSegment::new(kani::any(), kani::any(), Vec::new());
    let e0 = any_entry(1);
    seg.add_unsigned_entry(e0, &keys[0]);
    let e1 = any_entry(1);
    // known corner (observation, see C01.py): update_macs finds "the entries before this one" by
    // VALUE equality of hop_entry; a new entry whose placeholder hop_entry equals an earlier one
    // gets a truncated β.  Excluded here.
    kani::assume(e1.hop_entry != seg.as_entries[0].hop_entry);
    seg.add_unsigned_entry(e1, &keys[1]);
    seg
}

#[kani::proof]
#[kani::unwind(8)]
#[kani::stub(crate::dataplane_path::standard::mac::algo::calculate_hop_mac, stub_mac)]
fn c01_mac_chain_l2() {
    let keys: [ForwardingKey; 2] = [kani::any(), kani::any()];
    let seg = build_l2(&keys);
    let i: usize = kani::any();
    kani::assume(i < 2);
    let hf = &seg.as_entries[i].hop_entry.hop_field;
    let want = stub_mac(beta(&seg, i), seg.info().timestamp, hf.expiration_units, hf.cons_ingress, hf.cons_egress, &keys[i]);
    let mut same = true;
    for b in 0..6 {
        same &= hf.mac.0[b] == want[b];
    }
    assert!(same, "C01.mac-chain: hop MAC of entry i is computed over β_i with the key of AS i");
    kani::cover!(i == 1, "second entry");
}

#[kani::proof]
#[kani::unwind(8)]
#[kani::stub(crate::dataplane_path::standard::mac::algo::calculate_hop_mac, stub_mac)]
fn c01_kf_peer_mac_chain_l2() {
    let keys: [ForwardingKey; 2] = [kani::any(), kani::any()];
    let seg = build_l2(&keys);
    let i: usize = kani::any();
    kani::assume(i < 2);
    let hf = &seg.as_entries[i].peer_entries[0].hop_field;
    let want = stub_mac(beta(&seg, i + 1), seg.info().timestamp, hf.expiration_units, hf.cons_ingress, hf.cons_egress, &keys[i]);
    let mut same = true;
    for b in 0..6 {
        same &= hf.mac.0[b] == want[b];
    }
    assert!(same, "C01.peer-chain: peer hop MAC of entry i must be chained with β_(i+1) (the value initialize_segment_id hands to the router)");
    kani::cover!(i == 1, "second entry");
}
