// Contract module for crates/libs/sciparse/src/proto/dataplane_path/standard/view.rs and
// standard/model.rs (property C12).  Included from the real crate by
//   #[cfg(kani)] #[path = "/verif/kani/sciparse/std_view.rs"] mod verif_std_view;
// at the end of standard/view.rs.
//
// Contracts (DESIGN §3/C12):
//   StandardPathView::try_reverse   requires: bytes accepted by the view constructor (nothing else)
//       ensures  Err ==> every byte unchanged (C12.atomic), never panics (Kani built-ins)
//                Ok  ==> reversal spec (C12.rev-spec): segment lengths reversed, hop field j' =
//                        old hop field total-1-j, info field i' = old info field cnt-1-i with
//                        CONS_DIR toggled, CurrHF' = total-1-CurrHF, CurrINF' = cnt-1-CurrINF,
//                        reserved bits and bytes behind the view untouched
//                Ok  ==> a second try_reverse is Ok and restores the bytes (C12.involution)
//   StandardPath::try_reverse (model) same, on the struct
//   view/model agreement on every model accepted by the encoder (C12.agree-*), shapes enumerated
//   concretely, field contents and both pointers symbolic.
#![allow(dead_code)]

use tinyvec::{ArrayVec, TinyVec};

use super::*;
use crate::{
    core::{convert::ToModel, encode::WireEncode},
    dataplane_path::{
        standard::model::{HopField, InfoField, Segment, StandardPath},
        view::{ScionDpPathViewExt, ScionDpPathViewExtMut, ScionDpPathViewRef, ScionDpPathViewRefMut},
    },
};

// ------------------------------------------------------------------------------------------
// spec-side decoding (draft-dekater-scion-dataplane PathMeta)
// ------------------------------------------------------------------------------------------

#[derive(Clone, Copy)]
struct Pre {
    ci: usize,
    chf: usize,
    seg: [usize; 3],
    ninfo: usize,
    nhops: usize,
    size: usize,
}

fn decode_meta(b: &[u8]) -> Pre {
    let w = u32::from_be_bytes([b[0], b[1], b[2], b[3]]);
    let seg = [((w >> 12) & 0x3f) as usize, ((w >> 6) & 0x3f) as usize, (w & 0x3f) as usize];
    let ninfo = (seg[0] > 0) as usize + (seg[1] > 0) as usize + (seg[2] > 0) as usize;
    let nhops = seg[0] + seg[1] + seg[2];
    Pre {
        ci: (w >> 30) as usize,
        chf: ((w >> 24) & 0x3f) as usize,
        seg,
        ninfo,
        nhops,
        size: 4 + 8 * ninfo + 12 * nhops,
    }
}

/// Segment lengths form a non-empty prefix of non-empty segments.
fn shape_wf(p: &Pre) -> bool {
    p.seg[0] > 0 && (p.seg[1] > 0 || p.seg[2] == 0)
}

fn assert_unchanged<const N: usize>(before: &[u8; N], after: &[u8; N]) {
    let i: usize = kani::any();
    kani::assume(i < N);
    assert!(before[i] == after[i], "C12.atomic: StandardPathView::try_reverse Err leaves every byte unchanged");
}

// ------------------------------------------------------------------------------------------
// view: atomicity + totality on every accepted byte string
// ------------------------------------------------------------------------------------------

fn view_reverse_atomic<const N: usize>() {
    let mut buf: [u8; N] = kani::any();
    let before = buf;
    let p = decode_meta(&before);
    let Ok((view, _rest)) = StandardPathView::try_from_mut_slice(&mut buf) else {
        kani::cover!(true, "constructor rejects");
        return;
    };
    let r = view.try_reverse();
    let after = buf;
    match r {
        Err(_) => {
            kani::cover!(p.nhops == 0, "Err: no segments");
            kani::cover!(p.nhops > 0 && p.chf >= p.nhops, "Err: CurrHF out of range");
            kani::cover!(p.nhops > 0 && p.chf < p.nhops, "Err: CurrINF out of range");
            kani::cover!(p.seg[1] > 0 && p.seg[2] == 0 && p.seg[0] != p.seg[1], "Err on a two-segment path with different lengths");
            assert_unchanged(&before, &after);
        }
        Ok(()) => {
            kani::cover!(true, "Ok");
            kani::cover!(!shape_wf(&p), "Ok on a path with an empty segment before a non-empty one");
            let q = decode_meta(&after);
            assert!(p.chf < p.nhops, "C12.total: reversal succeeds only with CurrHF in range");
            assert!(q.nhops == p.nhops && q.ninfo == p.ninfo, "C12.rev-spec: reversal keeps the number of hop and info fields");
            assert!(q.chf == p.nhops - 1 - p.chf, "C12.rev-spec: logical position preserved (CurrHF' = total-1-CurrHF)");
        }
    }
}

#[kani::proof]
#[kani::unwind(9)]
fn c12_view_reverse_atomic_n100() {
    view_reverse_atomic::<100>();
}

// ------------------------------------------------------------------------------------------
// view: functional spec of a successful reversal on well-formed shapes
// ------------------------------------------------------------------------------------------

fn view_reverse_spec<const N: usize>() {
    let mut buf: [u8; N] = kani::any();
    let before = buf;
    let p = decode_meta(&before);
    kani::assume(shape_wf(&p));
    let Ok((view, _rest)) = StandardPathView::try_from_mut_slice(&mut buf) else {
        return;
    };
    if view.try_reverse().is_err() {
        return;
    }
    let after = buf;
    let q = decode_meta(&after);
    kani::cover!(p.ninfo == 1, "Ok, one segment");
    kani::cover!(p.ninfo == 2 && p.seg[0] != p.seg[1], "Ok, two segments of different length");
    kani::cover!(p.ninfo == 3 && p.seg[0] != p.seg[2], "Ok, three segments");
    // meta
    assert!(p.ci < p.ninfo && p.chf < p.nhops, "C12.total: reversal succeeds only with both pointers in range");
    let n = p.ninfo;
    let s = kani::any_where(|s: &usize| *s < 3);
    let expect = if s < n { p.seg[n - 1 - s] } else { 0 };
    assert!(q.seg[s] == expect, "C12.rev-spec: segment lengths are reversed");
    assert!(q.chf == p.nhops - 1 - p.chf, "C12.rev-spec: CurrHF' = total-1-CurrHF");
    assert!(q.ci == n - 1 - p.ci, "C12.rev-spec: CurrINF' = segments-1-CurrINF");
    assert!(after[1] & 0xfc == before[1] & 0xfc, "C12.rev-spec: reserved bits untouched");
    // info fields
    let i = kani::any_where(|i: &usize| *i < 3);
    let k = kani::any_where(|k: &usize| *k < 12);
    if i < n && k < 8 {
        let a = after[4 + 8 * i + k];
        let b = before[4 + 8 * (n - 1 - i) + k];
        if k == 0 {
            assert!(a == b ^ 0x01, "C12.rev-spec: info fields reversed with CONS_DIR toggled");
        } else {
            assert!(a == b, "C12.rev-spec: info fields reversed, other bytes kept");
        }
    }
    // hop fields
    let j: usize = kani::any();
    kani::assume(j < p.nhops);
    let ho = 4 + 8 * n;
    assert!(
        after[ho + 12 * j + k] == before[ho + 12 * (p.nhops - 1 - j) + k],
        "C12.rev-spec: hop fields are reversed byte-for-byte"
    );
    // bytes behind the view
    let t: usize = kani::any();
    kani::assume(t >= p.size && t < N);
    assert!(after[t] == before[t], "C12.rev-spec: bytes behind the view untouched");
}

#[kani::proof]
#[kani::unwind(9)]
fn c12_view_reverse_spec_n100() {
    view_reverse_spec::<100>();
}

// ------------------------------------------------------------------------------------------
// view: involution on every accepted byte string (also the malformed shapes)
// ------------------------------------------------------------------------------------------

fn view_reverse_involution<const N: usize>() {
    let mut buf: [u8; N] = kani::any();
    let before = buf;
    let Ok((view, _rest)) = StandardPathView::try_from_mut_slice(&mut buf) else {
        return;
    };
    if view.try_reverse().is_err() {
        return;
    }
    let second = view.try_reverse();
    kani::cover!(second.is_ok(), "second reversal Ok");
    assert!(second.is_ok(), "C12.involution: a reversed path can be reversed again");
    let after = buf;
    let i: usize = kani::any();
    kani::assume(i < N);
    assert!(before[i] == after[i], "C12.involution: reverse(reverse(p)) == p byte-for-byte");
}

#[kani::proof]
#[kani::unwind(9)]
fn c12_view_reverse_involution_n100() {
    view_reverse_involution::<100>();
}

// ------------------------------------------------------------------------------------------
// ScionDpPathViewExtMut::try_reverse / try_into_reversed wrappers (Standard variant)
// ------------------------------------------------------------------------------------------

#[kani::proof]
#[kani::unwind(9)]
fn c12_dp_view_reverse_atomic_n64() {
    const N: usize = 64;
    let mut buf: [u8; N] = kani::any();
    let before = buf;
    let Ok((view, _rest)) = StandardPathView::try_from_mut_slice(&mut buf) else {
        return;
    };
    let by_value: bool = kani::any();
    let ok = if by_value {
        match ScionDpPathViewRefMut::Standard(view).try_into_reversed() {
            Ok(_) => true,
            Err((_same, _e)) => false,
        }
    } else {
        let mut dp = ScionDpPathViewRefMut::Standard(view);
        dp.try_reverse().is_ok()
    };
    kani::cover!(ok && by_value, "try_into_reversed Ok");
    kani::cover!(!ok && by_value, "try_into_reversed Err");
    kani::cover!(ok && !by_value, "try_reverse Ok");
    kani::cover!(!ok && !by_value, "try_reverse Err");
    if !ok {
        let after = buf;
        let i: usize = kani::any();
        kani::assume(i < N);
        assert!(before[i] == after[i], "C12.atomic: ScionDpPathViewExtMut::try_reverse/try_into_reversed Err leaves the bytes unchanged");
    }
}

#[kani::proof]
fn c12_dp_view_reverse_other_variants() {
    let mut raw: [u8; 8] = kani::any();
    let before = raw;
    let mut dp = ScionDpPathViewRefMut::Unsupported { path_type: crate::dataplane_path::types::PathType::Epic, buf: &mut raw };
    let r = dp.try_reverse().is_ok();
    assert!(!r, "C12.total: unsupported path types report an error");
    let i = kani::any_where(|i: &usize| *i < 8);
    assert!(raw[i] == before[i], "C12.atomic: unsupported path data untouched by a failed reversal");
    let mut e = ScionDpPathViewRefMut::Empty;
    assert!(e.try_reverse().is_ok(), "C12.total: the empty path reverses to itself");
    kani::cover!(true, "reached");
}

// ------------------------------------------------------------------------------------------
// models of a concrete shape with symbolic contents and symbolic pointers
// ------------------------------------------------------------------------------------------

fn any_hop() -> HopField {
    HopField {
        flags: HopFieldFlags::from_bits_retain(kani::any()),
        expiration_units: kani::any(),
        cons_ingress: kani::any(),
        cons_egress: kani::any(),
        mac: HopFieldMac(kani::any()),
    }
}
fn any_info() -> InfoField {
    InfoField {
        flags: InfoFieldFlags::from_bits_retain(kani::any()),
        segment_id: kani::any(),
        timestamp: kani::any(),
    }
}
fn model_of_shape(shape: [usize; 3]) -> StandardPath {
    let mut segments: ArrayVec<[Segment; 3]> = ArrayVec::new();
    let mut s = 0;
    while s < 3 {
        if shape[s] != usize::MAX {
            let mut hop_fields: TinyVec<[HopField; 12]> = TinyVec::new();
            let mut h = 0;
            while h < shape[s] {
                hop_fields.push(any_hop());
                h += 1;
            }
            segments.push(Segment { info_field: any_info(), hop_fields });
        }
        s += 1;
    }
    StandardPath { current_info_field: kani::any(), current_hop_field: kani::any(), segments }
}

fn hop_eq(a: &HopField, b: &HopField) -> bool {
    let mut m = true;
    let mut i = 0;
    while i < 6 {
        m &= a.mac.0[i] == b.mac.0[i];
        i += 1;
    }
    m && a.flags.bits() == b.flags.bits()
        && a.expiration_units == b.expiration_units
        && a.cons_ingress == b.cons_ingress
        && a.cons_egress == b.cons_egress
}
fn info_eq(a: &InfoField, b: &InfoField) -> bool {
    a.flags.bits() == b.flags.bits() && a.segment_id == b.segment_id && a.timestamp == b.timestamp
}
fn model_eq(a: &StandardPath, b: &StandardPath) -> bool {
    if a.current_hop_field != b.current_hop_field
        || a.current_info_field != b.current_info_field
        || a.segments.len() != b.segments.len()
    {
        return false;
    }
    let mut s = 0;
    while s < a.segments.len() {
        let (x, y) = (&a.segments[s], &b.segments[s]);
        if !info_eq(&x.info_field, &y.info_field) || x.hop_fields.len() != y.hop_fields.len() {
            return false;
        }
        let mut h = 0;
        while h < x.hop_fields.len() {
            if !hop_eq(&x.hop_fields[h], &y.hop_fields[h]) {
                return false;
            }
            h += 1;
        }
        s += 1;
    }
    true
}

/// Model-side contract of `StandardPath::try_reverse` for one concrete shape (empty segments
/// allowed, `usize::MAX` = segment absent), symbolic contents and pointers.
fn model_reverse_contract(shape: [usize; 3]) {
    let m0 = model_of_shape(shape);
    let mut m = m0.clone();
    let total: usize = m0.segments.iter().map(|s| s.hop_fields.len()).sum();
    let nseg = m0.segments.len();
    match m.try_reverse() {
        Err(_) => {
            kani::cover!(true, "model reversal Err");
            assert!(model_eq(&m, &m0), "C12.atomic: StandardPath::try_reverse Err leaves the model unchanged");
            assert!(
                nseg == 0 || m0.current_hop_field as usize >= total || m0.current_info_field as usize >= nseg,
                "C12.total: the model reversal fails only without segments or with a pointer out of range"
            );
        }
        Ok(()) => {
            kani::cover!(true, "model reversal Ok");
            assert!(m.current_hop_field as usize == total - 1 - m0.current_hop_field as usize, "C12.rev-spec: model CurrHF' = total-1-CurrHF");
            assert!(m.current_info_field as usize == nseg - 1 - m0.current_info_field as usize, "C12.rev-spec: model CurrINF' = segments-1-CurrINF");
            let r2 = m.try_reverse();
            assert!(r2.is_ok(), "C12.involution: a reversed model can be reversed again");
            assert!(model_eq(&m, &m0), "C12.involution: model reverse(reverse(p)) == p");
        }
    }
}

const X: usize = usize::MAX;

#[kani::proof]
#[kani::unwind(14)]
fn c12_model_reverse_total_small() {
    // all shapes with <= 2 segments x <= 2 hops, INCLUDING empty segments and the empty path
    model_reverse_contract([X, X, X]);
    let mut a = 0;
    while a <= 2 {
        model_reverse_contract([a, X, X]);
        let mut b = 0;
        while b <= 2 {
            model_reverse_contract([a, b, X]);
            b += 1;
        }
        a += 1;
    }
}

// ------------------------------------------------------------------------------------------
// view / model agreement on one encodable shape
// ------------------------------------------------------------------------------------------

const ENC: usize = 4 + 3 * 8 + 9 * 12;

fn spec_ingress(h: &HopField, i: &InfoField) -> u16 {
    if i.flags.bits() & 0x01 != 0 { h.cons_ingress } else { h.cons_egress }
}
fn spec_egress(h: &HopField, i: &InfoField) -> u16 {
    if i.flags.bits() & 0x01 != 0 { h.cons_egress } else { h.cons_ingress }
}

fn agreement_contract(shape: [usize; 3]) {
    let m0 = model_of_shape(shape);
    if m0.wire_valid().is_err() {
        return;
    }
    kani::cover!(true, "encodable model");
    let nseg = m0.segments.len();
    let mut b = [0u8; ENC];
    let n = match m0.try_encode(&mut b) {
        Ok(n) => n,
        Err(_) => {
            assert!(false, "C12.agree-conv: a wire-valid model encodes");
            return;
        }
    };
    let mut bytes = b;
    let Ok((view, rest)) = StandardPathView::try_from_mut_slice(&mut bytes[..n]) else {
        assert!(false, "C12.agree-conv: the encoding of a model is accepted by the view constructor");
        return;
    };
    assert!(rest.is_empty(), "C12.agree-conv: the view covers exactly the encoding");

    // conversion
    let back = view.to_model();
    assert!(model_eq(&back, &m0), "C12.agree-conv: to_model(encode(m)) == m");

    // expiry
    assert!(view.expiration() == m0.expiration(), "C12.agree-exp: view and model expiration agree");
    assert!(ScionDpPathViewRef::Standard(view).expiration() == Some(m0.expiration()), "C12.agree-exp: dataplane-path view expiration agrees");

    // interface queries against the model fields
    let dp = ScionDpPathViewRef::Standard(view);
    let first = &m0.segments[0];
    let last = &m0.segments[nseg - 1];
    assert!(dp.first_egress_interface() == Some(spec_egress(&first.hop_fields[0], &first.info_field)), "C12.agree-if: first egress interface");
    assert!(
        dp.last_ingress_interface() == Some(spec_ingress(&last.hop_fields[last.hop_fields.len() - 1], &last.info_field)),
        "C12.agree-if: last ingress interface"
    );
    // current hop: hop number current_hop_field counted over the model, info = current_info_field
    let ch = m0.current_hop_field as usize;
    let ci = m0.current_info_field as usize;
    let mut acc = 0;
    let mut s = 0;
    while s < nseg {
        let len = m0.segments[s].hop_fields.len();
        if ch >= acc && ch < acc + len {
            let hop = &m0.segments[s].hop_fields[ch - acc];
            let info = &m0.segments[ci].info_field;
            assert!(dp.current_egress_interface() == Some(spec_egress(hop, info)), "C12.agree-if: current egress interface");
            assert!(dp.current_ingress_interface() == Some(spec_ingress(hop, info)), "C12.agree-if: current ingress interface");
            assert!(view.curr_egress_interface() == Some(spec_egress(hop, info)), "C12.agree-if: curr_egress_interface");
            // segment index query
            assert!(
                view.calculate_segment_index(ch) == Some((s, ch == acc, ch + 1 == acc + len)),
                "C12.agree-seg: calculate_segment_index matches the model's segment structure"
            );
        }
        acc += len;
        s += 1;
    }
    assert!(view.calculate_segment_index(acc).is_none(), "C12.agree-seg: hop index behind the path has no segment");

    // reversal
    let mut m = m0.clone();
    let rm = m.try_reverse();
    let rv = view.try_reverse();
    assert!(rm.is_ok() == rv.is_ok(), "C12.agree-rev: view and model reversal agree on Ok/Err");
    assert!(rv.is_ok(), "C12.agree-rev: an encodable model is reversible");
    let mut b2 = [0u8; ENC];
    let n2 = m.try_encode(&mut b2);
    assert!(n2.is_ok(), "C12.agree-rev: the reversed model is encodable");
    let i: usize = kani::any();
    kani::assume(i < n);
    assert!(b2[i] == bytes[i], "C12.agree-rev: encode(model.try_reverse()) == bytes(view.try_reverse())");
}

#[kani::proof]
#[kani::unwind(14)]
fn c12_agree_one_segment() {
    agreement_contract([1, X, X]);
    agreement_contract([2, X, X]);
}

#[kani::proof]
#[kani::unwind(14)]
fn c12_agree_two_segments() {
    let mut a = 1;
    while a <= 2 {
        let mut b = 1;
        while b <= 2 {
            agreement_contract([a, b, X]);
            b += 1;
        }
        a += 1;
    }
}

#[kani::proof]
#[kani::unwind(14)]
fn c12_agree_three_segments_t() {
    // thorough: 3 segments x <= 3 hops (27 shapes) + 2 segments with a 3-hop segment
    let mut a = 1;
    while a <= 3 {
        let mut b = 1;
        while b <= 3 {
            if a == 3 || b == 3 {
                agreement_contract([a, b, X]);
            }
            let mut c = 1;
            while c <= 3 {
                agreement_contract([a, b, c]);
                c += 1;
            }
            b += 1;
        }
        a += 1;
    }
    agreement_contract([3, X, X]);
}
