// Contract module for property C02, obligations (4) layout arithmetic and (5) bit-range primitives.
// Included from crates/libs/sciparse/src/core/layout.rs by
//   #[cfg(kani)] #[path = "/verif/kani/sciparse/c02_layout.rs"] mod verif_c02_layout;
//
// Every harness here is loop-free and quantifies over the full stated domain (class P).
//
// Contracts (postconditions taken from DESIGN §3/C02 (4),(5), not from the code):
//   BitRange::containing_byte_range  smallest byte interval that contains the bit interval
//   BitRange::size_bytes             its length
//   BitRange::shift(b)               translation by b bytes, commutes with containing_byte_range
//   AddressHeaderLayout::*_range     dst | src host ranges: adjacent, byte aligned, inside [0,size)
//   WireHostAddrType::{from,size}    size in {4,8,12,16}; nibble -> type -> nibble is the identity
//   StdPathDataLayout::{info_field_range, hop_field_range, size_bytes}
//                                    field i of kind k lies in [0,size), has the fixed field size,
//                                    distinct fields are disjoint, info fields precede hop fields
//   unchecked_bit_range_be_{read,write}  requires: range.start <= range.end,
//                                    range.size_bytes() <= 16, size_bits() <= 64 (u64 carrier),
//                                    range.containing_byte_range().end <= buf.len()
//                                    ensures: write changes exactly the bits of `range`
//                                    (MSB first), read returns exactly those bits and does not
//                                    depend on any byte outside containing_byte_range().
#![allow(dead_code)]

use super::*;
use crate::{
    core::{read::unchecked_bit_range_be_read, write::unchecked_bit_range_be_write},
    dataplane_path::standard::layout::{HopFieldLayout, InfoFieldLayout, StdPathDataLayout},
    header::layout::{AddressHeaderLayout, CommonHeaderLayout},
    scion::address::host_addr::WireHostAddrType,
};

// ------------------------------------------------------------------------------------------
// (4) BitRange arithmetic
// ------------------------------------------------------------------------------------------

/// Domain: every BitRange with start <= end <= 2^40 and every shift <= 2^40 bytes (all uses in the
/// crate are < 2^14 bits; the bound only excludes `usize` overflow of `bytes * 8`, which is the
/// caller's precondition of `shift`).
#[kani::proof]
fn c02_bitrange_arith() {
    let start: usize = kani::any();
    let end: usize = kani::any();
    let by: usize = kani::any();
    kani::assume(start <= end && end <= (1usize << 40) && by <= (1usize << 40));
    let r = BitRange { start, end };

    let br = r.containing_byte_range();
    assert!(br.start <= br.end, "C02.layout: byte range ordered");
    assert!(br.start * 8 <= start && start - br.start * 8 < 8, "C02.layout: first byte is the byte of the first bit");
    assert!(end <= br.end * 8 && br.end * 8 - end < 8, "C02.layout: last byte is the byte of the last bit");
    assert!(r.size_bytes() == br.end - br.start, "C02.layout: size_bytes is the length of containing_byte_range");
    assert!(r.size_bits() == end - start, "C02.layout: size_bits");
    assert!(r.size_bytes() * 8 >= r.size_bits(), "C02.layout: bytes cover bits");
    assert!(r.size_bytes() * 8 < r.size_bits() + 15, "C02.layout: at most one partial byte on each side");

    let s = r.shift(by);
    assert!(s.start == start + by * 8 && s.end == end + by * 8, "C02.layout: shift translates by whole bytes");
    let sbr = s.containing_byte_range();
    assert!(sbr.start == br.start + by && sbr.end == br.end + by, "C02.layout: shift commutes with containing_byte_range");
    assert!(s.size_bytes() == r.size_bytes() && s.size_bits() == r.size_bits(), "C02.layout: shift preserves sizes");

    if start % 8 == 0 && end % 8 == 0 {
        let ar = r.aligned_byte_range();
        assert!(ar.start == br.start && ar.end == br.end, "C02.layout: aligned_byte_range agrees with containing_byte_range");
        kani::cover!(end > start, "aligned non-empty range");
    }
    kani::cover!(start % 8 != 0 && end % 8 != 0 && br.end - br.start > 2, "unaligned multi-byte range");
    kani::cover!(start == end, "empty range");
}

// ------------------------------------------------------------------------------------------
// (4) address header layout + address type nibble
// ------------------------------------------------------------------------------------------

/// Domain: all 256 x 256 (src_len, dst_len) byte pairs (the decoder only produces 4/8/12/16).
#[kani::proof]
fn c02_addr_layout_ranges() {
    let src: u8 = kani::any();
    let dst: u8 = kani::any();
    let l = AddressHeaderLayout::new(src, dst);
    let size = l.size_bytes();
    assert!(size == 16 + src as usize + dst as usize, "C02.layout: address header size = 16 + dst + src");
    let d = l.dst_host_addr_range();
    let s = l.src_host_addr_range();
    assert!(d.start == 128 && d.end == 128 + 8 * dst as usize, "C02.layout: dst host follows the two ISD-AS words");
    assert!(s.start == d.end && s.end == s.start + 8 * src as usize, "C02.layout: src host follows dst host");
    assert!(s.end == size * 8, "C02.layout: src host ends the address header");
    assert!(l.total_range().start == 0 && l.total_range().end == size * 8, "C02.layout: total range");
    // shifted into the SCION header (the form used by the header view)
    let ds = d.shift(CommonHeaderLayout::SIZE_BYTES).aligned_byte_range();
    let ss = s.shift(CommonHeaderLayout::SIZE_BYTES).aligned_byte_range();
    assert!(ds.start == 28 && ds.end == 28 + dst as usize, "C02.layout: dst host byte range in header");
    assert!(ss.start == ds.end && ss.end == 12 + size, "C02.layout: src host byte range in header");
    // fixed fields inside the fixed part
    assert!(AddressHeaderLayout::DST_IA_RNG.end == 64 && AddressHeaderLayout::SRC_IA_RNG.start == 64
        && AddressHeaderLayout::SRC_IA_RNG.end == 128, "C02.layout: ISD-AS words");
    assert!(AddressHeaderLayout::DST_ISD_RNG.end == AddressHeaderLayout::DST_AS_RNG.start
        && AddressHeaderLayout::DST_AS_RNG.end == 64, "C02.layout: dst ISD|AS split");
    assert!(AddressHeaderLayout::SRC_ISD_RNG.start == 64
        && AddressHeaderLayout::SRC_ISD_RNG.end == AddressHeaderLayout::SRC_AS_RNG.start
        && AddressHeaderLayout::SRC_AS_RNG.end == 128, "C02.layout: src ISD|AS split");
    kani::cover!(src == 16 && dst == 4, "v6 source, v4 destination");
    kani::cover!(src == 255 && dst == 255, "largest layout");
}

/// Domain: all 256 byte values given to `WireHostAddrType::from` (the header view passes a nibble).
#[kani::proof]
fn c02_addr_type_nibble() {
    let n: u8 = kani::any();
    let t = WireHostAddrType::from(n);
    let sz = t.size();
    assert!(sz == 4 || sz == 8 || sz == 12 || sz == 16, "C02.layout: address size in (4,8,12,16)");
    if n < 16 {
        // wire format: DL/SL = low two bits, length = (L+1)*4
        assert!(sz as usize == ((n as usize & 3) + 1) * 4, "C02.layout: address size = (L+1)*4");
        let back: u8 = t.into();
        assert!(back == n, "C02.layout: type nibble -> type -> nibble is the identity");
    }
    kani::cover!(n == 0b0011, "ipv6");
    kani::cover!(n == 0b0100, "svc");
    kani::cover!(n == 0b1010, "unknown type, 12 bytes");
}

// ------------------------------------------------------------------------------------------
// (4) standard path data layout
// ------------------------------------------------------------------------------------------

fn spec_info_count(a: u8, b: u8, c: u8) -> usize {
    (if a > 0 { 1 } else { 0 }) + (if b > 0 { 1 } else { 0 }) + (if c > 0 { 1 } else { 0 })
}

/// Domain: all 2^24 (seg0,seg1,seg2) byte triples (superset of the 2^18 six-bit triples a header
/// can carry), every field index.
#[kani::proof]
fn c02_stdpath_layout_ranges() {
    let a: u8 = kani::any();
    let b: u8 = kani::any();
    let c: u8 = kani::any();
    let l = StdPathDataLayout::new(a, b, c);
    let ni = spec_info_count(a, b, c);
    let nh = a as usize + b as usize + c as usize;
    let size = l.size_bytes();
    assert!(l.info_field_count() == ni && l.hop_field_count() == nh, "C02.layout: field counts");
    assert!(size == 8 * ni + 12 * nh, "C02.layout: path data size = 8*infos + 12*hops");
    assert!(l.info_fields_range().start == 0 && l.info_fields_range().end == 64 * ni, "C02.layout: info block");
    assert!(l.hop_fields_range().start == 64 * ni && l.hop_fields_range().end == size * 8, "C02.layout: hop block ends the path data");

    let i: usize = kani::any();
    let j: usize = kani::any();
    if i < ni {
        let r = l.info_field_range(i).aligned_byte_range();
        assert!(r.start == 8 * i && r.end == r.start + InfoFieldLayout::SIZE_BYTES, "C02.layout: info field i at 8*i, 8 bytes");
        assert!(r.end <= 8 * ni && r.end <= size, "C02.layout: info field inside the info block and the data");
        kani::cover!(i == 2, "third info field");
    }
    if i < nh {
        let r = l.hop_field_range(i).aligned_byte_range();
        assert!(r.start == 8 * ni + 12 * i && r.end == r.start + HopFieldLayout::SIZE_BYTES, "C02.layout: hop field i at 8*infos + 12*i, 12 bytes");
        assert!(r.start >= 8 * ni && r.end <= size, "C02.layout: hop field inside the hop block and the data");
        if j < nh && j != i {
            let q = l.hop_field_range(j).aligned_byte_range();
            assert!(q.end <= r.start || r.end <= q.start, "C02.layout: distinct hop fields are disjoint");
        }
        kani::cover!(i == 188 && nh == 189, "last hop field of the largest 6-bit path");
        kani::cover!(i + 1 == nh && nh == 765, "last hop field of the largest byte-valued layout");
    }
    kani::cover!(ni == 0, "empty path data");
}

// ------------------------------------------------------------------------------------------
// (5) bit-range read / write primitives
// ------------------------------------------------------------------------------------------

const PB: usize = 20; // buffer bytes: a 16-byte lane can sit at any of 5 byte offsets

fn bit_at(buf: &[u8; PB], j: usize) -> bool {
    (buf[j / 8] >> (7 - (j % 8))) & 1 == 1
}

fn any_range_pre(max_bits: usize) -> BitRange {
    let start: usize = kani::any();
    let end: usize = kani::any();
    kani::assume(start <= end && end <= PB * 8); // requires: range ordered, inside the buffer
    let r = BitRange { start, end };
    kani::assume(r.size_bytes() <= 16); // requires: lane fits
    kani::assume(r.size_bits() <= max_bits); // requires: carrier type holds the field
    r
}

/// write: frame (bits outside the range unchanged), effect (bits inside = value, MSB first),
/// truncation of over-wide values, round trip through read.  Carrier u64, every range of <= 64
/// bits at every bit offset of a 20-byte buffer, every buffer content, every value.
#[kani::proof]
fn c02_bit_write_u64_frame_effect() {
    let r = any_range_pre(64);
    let before: [u8; PB] = kani::any();
    let mut buf = before;
    let val: u64 = kani::any();
    unsafe { unchecked_bit_range_be_write::<u64>(&mut buf, r, val) };

    let j: usize = kani::any();
    kani::assume(j < PB * 8);
    if j < r.start || j >= r.end {
        assert!(bit_at(&buf, j) == bit_at(&before, j), "C02.bits: write leaves bits outside the range unchanged");
    } else {
        let k = r.end - 1 - j; // significance of bit j inside the field
        assert!(bit_at(&buf, j) == ((val >> k) & 1 == 1), "C02.bits: write stores the value MSB first");
    }
    let k: usize = kani::any();
    kani::assume(k < PB);
    let br = r.containing_byte_range();
    if k < br.start || k >= br.end {
        assert!(buf[k] == before[k], "C02.bits: write touches only containing_byte_range");
    }
    let back: u64 = unsafe { unchecked_bit_range_be_read::<u64>(&buf, r) };
    let n = r.size_bits();
    let mask: u64 = if n == 64 { u64::MAX } else { (1u64 << n) - 1 };
    assert!(back == val & mask, "C02.bits: read(write(v)) == v truncated to the field width");

    kani::cover!(n == 64 && r.start % 8 == 3, "64-bit field at an odd bit offset (9 bytes)");
    kani::cover!(n == 1, "single bit");
    kani::cover!(n == 0, "empty range");
    kani::cover!(br.end == PB && n == 20, "field ending at the last buffer byte");
    kani::cover!(j >= r.start && j < r.end, "asserted inside the range");
    kani::cover!(j < r.start, "asserted left of the range");
}

/// read: value = the bits of the range MSB first; independent of every byte outside
/// containing_byte_range.
#[kani::proof]
fn c02_bit_read_u64_exact() {
    let r = any_range_pre(64);
    let buf: [u8; PB] = kani::any();
    let v: u64 = unsafe { unchecked_bit_range_be_read::<u64>(&buf, r) };
    let n = r.size_bits();
    if n < 64 {
        assert!(v >> n == 0, "C02.bits: read returns no bits above the field width");
    }
    let j: usize = kani::any();
    kani::assume(j >= r.start && j < r.end);
    let k = r.end - 1 - j;
    assert!(bit_at(&buf, j) == ((v >> k) & 1 == 1), "C02.bits: read returns the field bits MSB first");

    // independence from bytes outside the containing byte range
    let mut other = buf;
    let k2: usize = kani::any();
    kani::assume(k2 < PB);
    let br = r.containing_byte_range();
    kani::assume(k2 < br.start || k2 >= br.end);
    other[k2] = kani::any();
    let v2: u64 = unsafe { unchecked_bit_range_be_read::<u64>(&other, r) };
    assert!(v2 == v, "C02.bits: read depends only on containing_byte_range");
    kani::cover!(n == 48 && r.start % 8 == 0, "aligned 48-bit field (AS number)");
    kani::cover!(n == 6 && r.start % 8 == 6, "6-bit field straddling a byte boundary (segment length)");
}

/// Same contract for the narrower carriers (value width <= carrier width): round trip + frame.
macro_rules! narrow_carrier {
    ($name:ident, $t:ty, $bits:expr) => {
        #[kani::proof]
        fn $name() {
            let r = any_range_pre($bits);
            let before: [u8; PB] = kani::any();
            let mut buf = before;
            let val: $t = kani::any();
            unsafe { unchecked_bit_range_be_write::<$t>(&mut buf, r, val) };
            let j: usize = kani::any();
            kani::assume(j < PB * 8);
            if j < r.start || j >= r.end {
                assert!(bit_at(&buf, j) == bit_at(&before, j), "C02.bits: narrow write leaves bits outside the range unchanged");
            } else {
                let k = r.end - 1 - j;
                assert!(bit_at(&buf, j) == ((val >> k) & 1 == 1), "C02.bits: narrow write stores the value MSB first");
            }
            let back: $t = unsafe { unchecked_bit_range_be_read::<$t>(&buf, r) };
            let n = r.size_bits();
            let mask: $t = if n == $bits { <$t>::MAX } else { ((1 as $t) << n) - 1 };
            assert!(back == val & mask, "C02.bits: narrow read(write(v)) == v truncated to the field width");
            kani::cover!(n == $bits && r.start % 8 == 5, "full-width field at an odd offset");
            kani::cover!(n == 2, "two-bit field");
        }
    };
}
narrow_carrier!(c02_bit_rw_u8, u8, 8);
narrow_carrier!(c02_bit_rw_u16, u16, 16);
narrow_carrier!(c02_bit_rw_u32, u32, 32);
