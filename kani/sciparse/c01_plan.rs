// Contract module for crates/libs/sciparse/src/scion/segment/list_segment_plan.rs (property C01,
// completeness fragment: "whenever the segments known to the control plane can be joined, at
// least one path is offered" needs every segment kind of the route to be REQUESTED).
//
//   C01.plan-kinds   ListSegmentPlan::new(src, hint, dst) == Ok(plan) =>
//                      up   requested <=> src is a non-core AS
//                      down requested <=> dst is a non-core AS
//                      core requested <=> src and dst are in different ISDs, or the source ISD has
//                                         several cores (unless a non-core source only wants "any
//                                         core" of its own ISD, which an up segment already reaches)
//   C01.plan-chain   the requests chain: up starts at src, down ends at dst, the core request joins
//                    the up segment's core end (or src) with the down segment's core end (or dst),
//                    each up/down request stays inside one ISD
//   C01.plan-err     Err <=> src == dst, or no segment kind is needed at all (core to core inside an
//                    ISD that has a single core)
// Loop-free, every IsdAsn fully symbolic: class P.
#![allow(dead_code)]

use super::*;

fn any_src() -> Src {
    let ia = IsdAsn(kani::any());
    kani::assume(!ia.is_wildcard());
    let r = Src::new(ia, kani::any());
    match r {
        Ok(s) => s,
        Err(_) => unreachable!(),
    }
}

#[kani::proof]
fn c01_segment_plan_requests_every_needed_kind() {
    let src = any_src();
    let dst = Dst::new(IsdAsn(kani::any()), kani::any());
    // an "any core" destination is given in its canonical form <isd>-0
    if let Dst::AnyCore(x) = dst {
        kani::assume(x == dst.ias());
    }
    let hint = if kani::any() {
        let c = IsdAsn(kani::any());
        // the hint names the single core of the SOURCE ISD
        kani::assume(c.isd() == src.isd() && !c.is_wildcard());
        CoreHint::Single(c)
    } else {
        CoreHint::Multiple
    };
    let res = ListSegmentPlan::new(src, hint, dst);

    let src_noncore = matches!(src, Src::NonCore(_));
    let dst_noncore = matches!(dst, Dst::NonCore(_));
    let dst_anycore = matches!(dst, Dst::AnyCore(_));
    let cross = src.isd() != dst.isd();
    let single = matches!(hint, CoreHint::Single(_));
    let up_needed = src_noncore;
    let down_needed = dst_noncore;
    let core_needed = cross || (!single && !(src_noncore && dst_anycore));
    let same = src.ias() == dst.ias();
    let nothing = !up_needed && !down_needed && !core_needed;

    match res {
        Ok(plan) => {
            assert!(!same && !nothing, "C01.plan-err: a plan was produced for src == dst or for a route needing no segment");
            assert!(plan.up.is_some() == up_needed, "C01.plan-kinds: up segments requested <=> non-core source");
            assert!(plan.down.is_some() == down_needed, "C01.plan-kinds: down segments requested <=> non-core destination");
            assert!(plan.core.is_some() == core_needed, "C01.plan-kinds: core segments requested <=> different ISDs or several cores");
            if let Some((a, b)) = plan.up {
                assert!(a == src.ias(), "C01.plan-chain: up request does not start at the source");
                assert!(a.isd() == b.isd(), "C01.plan-chain: up request leaves the source ISD");
            }
            if let Some((a, b)) = plan.down {
                assert!(b == dst.ias(), "C01.plan-chain: down request does not end at the destination");
                assert!(a.isd() == b.isd(), "C01.plan-chain: down request leaves the destination ISD");
            }
            if let Some((a, b)) = plan.core {
                let from = match plan.up { Some((_, t)) => t, None => src.ias() };
                let to = match plan.down { Some((t, _)) => t, None => dst.ias() };
                assert!(a == from, "C01.plan-chain: core request does not start where the up request ends");
                assert!(b == to, "C01.plan-chain: core request does not end where the down request starts");
            }
            if plan.core.is_none() {
                if let (Some((_, t1)), Some((t2, _))) = (plan.up, plan.down) {
                    assert!(t1 == t2, "C01.plan-chain: up and down requests do not meet at the same core");
                }
            }
            kani::cover!(plan.up.is_some() && plan.core.is_some() && plan.down.is_some(), "up+core+down plan");
            kani::cover!(plan.up.is_some() && plan.core.is_none() && plan.down.is_some(), "up+down plan (single core)");
        }
        Err(_) => {
            assert!(same || nothing, "C01.plan-err: lookup refused although a route needs segments");
            kani::cover!(same, "src == dst refused");
            kani::cover!(!same && nothing, "core to core in a single-core ISD");
        }
    }
}
