// Contract module for crates/libs/sciparse/src/scion/path/combinator/graph.rs (property C19).
//
//   C19.size        StandardPath::required_size arithmetic is total for all segment-length bytes
//   C19.long-seg    a segment with more than 63 hop fields => StandardPath::wire_valid() is Err
//                   (hence try_encode_to_vec and PathSolution::path() return Err)
//   C19.empty-seg   add_core_segment / add_non_core_segment refuse empty segments, graph untouched
//   C19.no-panic    PathSolution::path() / initialize_segment_id on ARBITRARY entries with an edge
//                   as produced by add_*_segment: no panic (Kani's panic/overflow/bounds checks)
//   C19.encodes     path() == Ok(Some(p)) => p's dataplane path is a standard path that parsed back
//                   with exactly the traversed hop fields
#![allow(dead_code, unused_imports)]

use super::verif_c04_graph::*;
use super::*;
use crate::core::layout::Layout;
use crate::dataplane_path::standard::layout::{StdPathDataLayout, StdPathMetaLayout};
use crate::dataplane_path::standard::model::HopField;
use crate::dataplane_path::view::ScionDpPathView;
use crate::scion::segment::verif_c18_signed::mk_segment;
use crate::segment::AsEntry;

/// `required_size` = META + layout(seg0,seg1,seg2).size_bytes() with the lengths narrowed to u8:
/// total (no overflow) for every byte triple, and > MAX_SIZE as soon as the sum exceeds 79 hops.
#[kani::proof]
fn c19_required_size_total() {
    let (a, b, c): (u8, u8, u8) = (kani::any(), kani::any(), kani::any());
    let sz = StdPathMetaLayout::SIZE_BYTES + StdPathDataLayout::new(a, b, c).size_bytes();
    let infos = (a > 0) as usize + (b > 0) as usize + (c > 0) as usize;
    let hops = a as usize + b as usize + c as usize;
    assert!(sz == 4 + 8 * infos + 12 * hops, "C19.size: encoded size = 4 + 8*segments + 12*hops");
    kani::cover!(sz > crate::dataplane_path::layout::ScionHeaderPathLayout::MAX_SIZE_BYTES, "too large");
    kani::cover!(sz <= crate::dataplane_path::layout::ScionHeaderPathLayout::MAX_SIZE_BYTES && hops > 0, "fits");
}

fn hop_vec(n: usize) -> TinyVec<[HopField; 12]> {
    // Heap-backed hop list whose LENGTH is symbolic. wire_valid must reject before looking at any
    // hop field of an over-long segment, so the contents are never read (CBMC would flag it).
    let mut v: Vec<HopField> = Vec::with_capacity(n);
    unsafe { v.set_len(n) };
    TinyVec::Heap(v)
}

fn one_hop() -> TinyVec<[HopField; 12]> {
    let mut t = TinyVec::new();
    t.push(HopField::empty());
    t
}

/// One segment (symbolic position 0..nseg) has a symbolic length n > 63 (any n up to 2^32); the
/// other segments have one hop.  wire_valid() must be Err, and so must try_encode_to_vec().
#[kani::proof]
#[kani::unwind(14)]
fn c19_wire_valid_rejects_long_segment() {
    let n: usize = kani::any();
    kani::assume(n > 63 && n <= (1usize << 32));
    let nseg: usize = kani::any();
    let pos: usize = kani::any();
    kani::assume(nseg >= 1 && nseg <= 3 && pos < nseg);
    let mut path = StandardPath::new_empty();
    for i in 0..3 {
        if i < nseg {
            let hops = if i == pos { hop_vec(n) } else { one_hop() };
            path.segments.push(Segment {
                info_field: InfoField { flags: InfoFieldFlags::empty(), segment_id: kani::any(), timestamp: kani::any() },
                hop_fields: hops,
            });
        }
    }
    let r = path.wire_valid();
    assert!(r.is_err(), "C19.long-seg: a segment with more than 63 hop fields must be rejected by wire_valid");
    kani::cover!(pos == 2 && n == 64, "third segment, 64 hops");
    kani::cover!(pos == 0 && n == 256 + 5, "length that wraps to a small u8");
    std::mem::forget(path);
}

/// Empty segments are refused and leave the graph untouched.
#[kani::proof]
#[kani::unwind(3)]
fn c19_empty_segments_are_skipped() {
    let pseg: PathSegment<AsEntry> = mk_segment(kani::any(), kani::any(), Vec::new());
    let core = InputSegment::Core(&pseg, SegmentID::from([0u8; 32]));
    let ncore = InputSegment::NonCore(&pseg, SegmentID::from([1u8; 32]));
    let mut g = MultiGraph::new(number_of_hops::<AsEntry>);
    let r1 = g.add_core_segment(&core);
    let r2 = g.add_non_core_segment(&ncore);
    let r3 = g.add_segment(&core);
    assert!(r1.is_err() && r2.is_err() && r3.is_err(), "C19.empty-seg: segments without entries are refused");
    assert!(g.adjacencies.is_empty(), "C19.empty-seg: a refused segment adds no edge");
    kani::cover!(true, "reached");
}

/// PathSolution::path() on a single-edge solution over a segment of `l` ARBITRARY entries with
/// `npeers` arbitrary peer entries each.
fn path_single_edge(l: usize, npeers: usize) {
    let pseg = any_segment(l, npeers);
    let is_core: bool = kani::any();
    let seg = if is_core {
        InputSegment::Core(&pseg, SegmentID::from([0u8; 32]))
    } else {
        InputSegment::NonCore(&pseg, SegmentID::from([0u8; 32]))
    };
    let edge = any_wf_edge(l, npeers, is_core);
    let sol = PathSolution {
        edges: vec![SolutionEdge { edge, src: any_vertex(), dst: any_vertex(), segment: &seg }],
        current_vertex: any_vertex(),
        cost: kani::any(),
    };
    let r = sol.path();
    match &r {
        Ok(Some(p)) => {
            match p.dp_path() {
                ScionDpPathView::Standard(v) => {
                    assert!(v.hop_field_count() as usize == l - edge.shortcut_idx, "C19.encodes: the encoded path carries exactly the traversed hop fields");
                    assert!(v.info_field_count() == 1, "C19.encodes: one info field per edge");
                }
                _ => assert!(false, "C19.encodes: combinator paths are standard paths"),
            }
            let md = p.metadata().unwrap();
            assert!(!md.interfaces.as_ref().unwrap().is_empty(), "C19.encodes: offered path has a non-empty interface list");
            kani::cover!(edge.peer.is_some(), "Ok via a peer entry");
            kani::cover!(edge.peer.is_none(), "Ok via regular hops");
        }
        Ok(None) => {
            // only when no traversed hop field names an interface (all ids zero): no usable path
            kani::cover!(true, "no path: all interface ids zero");
        }
        Err(_) => {}
    }
    if l >= 2 {
        kani::cover!(r.is_ok(), "Ok");
    }
    if l == 1 {
        kani::cover!(r.is_err(), "Err: single hop field segment not encodable?");
    }
}

#[kani::proof]
#[kani::unwind(14)]
#[kani::stub(crate::path::fingerprint::data_plane::DpPathFingerprint::from_dp_path, stub_dp_fingerprint)]
#[kani::stub(crate::path::fingerprint::control_plane::PathFingerprint::try_from_scion_path, stub_cp_fingerprint)]
fn c19_path_no_panic_l1() {
    path_single_edge(1, 1)
}

#[kani::proof]
#[kani::unwind(14)]
#[kani::stub(crate::path::fingerprint::data_plane::DpPathFingerprint::from_dp_path, stub_dp_fingerprint)]
#[kani::stub(crate::path::fingerprint::control_plane::PathFingerprint::try_from_scion_path, stub_cp_fingerprint)]
fn c19_path_no_panic_l2() {
    path_single_edge(2, 1)
}

#[kani::proof]
#[kani::unwind(14)]
#[kani::stub(crate::path::fingerprint::data_plane::DpPathFingerprint::from_dp_path, stub_dp_fingerprint)]
#[kani::stub(crate::path::fingerprint::control_plane::PathFingerprint::try_from_scion_path, stub_cp_fingerprint)]
fn c19_path_no_panic_l2_nopeers() {
    path_single_edge(2, 0)
}

#[kani::proof]
#[kani::unwind(14)]
#[kani::stub(crate::path::fingerprint::data_plane::DpPathFingerprint::from_dp_path, stub_dp_fingerprint)]
#[kani::stub(crate::path::fingerprint::control_plane::PathFingerprint::try_from_scion_path, stub_cp_fingerprint)]
fn c19_path_no_panic_l3() {
    path_single_edge(3, 1)
}
