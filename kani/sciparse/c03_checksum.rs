// Contract module for property C03 (4): the ones-complement checksum core.
// Included from crates/libs/sciparse/src/scion/checksum.rs by
//   #[cfg(kani)] #[path = "/verif/kani/sciparse/c03_checksum.rs"] mod verif_c03_checksum;
//
// Specification (RFC 1071): the checksum of a byte string is the complement of the ones-complement sum of
// its big-endian 16-bit words, an odd tail byte being padded with a zero byte on the right.
//   add_slice contract   requires: digest.checksum_with_overflow < 2^31 (no u32 overflow of the accumulator)
//                        ensures:  digest'.checksum() == !fold(acc + sum16_be(data)) for both alignments of data
//   add_u16/u32/u64      ensures:  acc' == acc + sum of the value's 16-bit big-endian words
//   fold_checksum        ensures:  result < 2^16, result ≡ acc (mod 0xffff), result == 0 iff acc == 0
#![allow(dead_code, unused_imports)]

use super::*;

fn spec_sum16(b: &[u8], mut acc: u32) -> u32 {
    let mut i = 0;
    while i + 1 < b.len() {
        acc += ((b[i] as u32) << 8) | b[i + 1] as u32;
        i += 2;
    }
    if i < b.len() {
        acc += (b[i] as u32) << 8;
    }
    acc
}
fn spec_fold(mut acc: u32) -> u16 {
    acc = (acc & 0xffff) + (acc >> 16);
    acc = (acc & 0xffff) + (acc >> 16);
    acc as u16
}

#[repr(align(2))]
struct Aligned<const M: usize>([u8; M]);

fn check_add_slice<const M: usize>(offset: usize) {
    let store: Aligned<M> = Aligned(kani::any());
    let len: usize = kani::any();
    kani::assume(len <= M - 2);
    let data = &store.0[offset..offset + len];
    let acc: u32 = kani::any();
    kani::assume(acc < (1 << 31));
    let mut d = ChecksumDigest { checksum_with_overflow: acc };
    d.add_slice(data);
    // acc < 2^31 and at most 129 words of 0xffff are added: the specification sum stays inside u32
    let expect = !spec_fold(spec_sum16(data, acc));
    assert!(d.checksum() == expect, "C03.cksum: add_slice equals the RFC 1071 sum");
    kani::cover!(len == M - 2, "longest slice");
    kani::cover!(len % 2 == 1 && len > 2, "odd length");
    kani::cover!(len == 0, "empty slice");
    kani::cover!(d.checksum() == 0, "checksum zero reachable");
}

/// quick: len <= 8 (every carry pattern of the two folds is reachable with 4 words), even start
#[kani::proof]
#[kani::unwind(7)]
fn c03_cksum_add_slice_aligned_8() {
    check_add_slice::<10>(0);
}

/// quick: len <= 8, slice starts at an odd address
#[kani::proof]
#[kani::unwind(7)]
fn c03_cksum_add_slice_unaligned_8() {
    check_add_slice::<10>(1);
}

/// thorough: len <= 64, slice starts at an even address
#[kani::proof]
#[kani::unwind(35)]
fn c03_cksum_add_slice_aligned_64() {
    check_add_slice::<66>(0);
}

/// quick: len <= 64, slice starts at an odd address
#[kani::proof]
#[kani::unwind(35)]
fn c03_cksum_add_slice_unaligned_64() {
    check_add_slice::<66>(1);
}

#[kani::proof]
#[kani::unwind(131)]
fn c03_cksum_add_slice_aligned_256() {
    check_add_slice::<258>(0);
}

#[kani::proof]
#[kani::unwind(131)]
fn c03_cksum_add_slice_unaligned_256() {
    check_add_slice::<258>(1);
}

/// The alignment decision taken by the code must follow the real address parity (otherwise the `&[u16]`
/// reinterpretation would be misaligned): checked by CBMC's pointer checks inside `add_slice` plus this
/// witness that both branches are taken for the two offsets.
#[kani::proof]
fn c03_cksum_alignment_witness() {
    let store: Aligned<4> = Aligned(kani::any());
    let a0 = store.0[0..].as_ptr().align_offset(2);
    let a1 = store.0[1..].as_ptr().align_offset(2);
    assert!(a0 == 0, "C03.cksum: even start is recognised as aligned");
    assert!(a1 != 0, "C03.cksum: odd start is recognised as unaligned");
    kani::cover!(a1 == 1, "odd start reports offset 1");
}

/// add_u16 / add_u32 / add_u64 / fold_checksum / checksum: full domain, loop bounded by the constant 2.
#[kani::proof]
#[kani::unwind(6)]
fn c03_cksum_words_fold() {
    let acc: u32 = kani::any();
    kani::assume(acc < (1 << 31));
    let v16: u16 = kani::any();
    let v32: u32 = kani::any();
    let v64: u64 = kani::any();
    let mut d = ChecksumDigest { checksum_with_overflow: acc };
    d.add_u16(v16);
    assert!(d.checksum_with_overflow == acc + v16 as u32, "C03.cksum: add_u16 adds the word");
    let mut d = ChecksumDigest { checksum_with_overflow: acc };
    d.add_u32(v32);
    assert!(d.checksum_with_overflow == acc + (v32 >> 16) + (v32 & 0xffff), "C03.cksum: add_u32 adds both words");
    let mut d = ChecksumDigest { checksum_with_overflow: acc };
    d.add_u64(v64);
    let w = ((v64 >> 48) & 0xffff) + ((v64 >> 32) & 0xffff) + ((v64 >> 16) & 0xffff) + (v64 & 0xffff);
    assert!(d.checksum_with_overflow as u64 == acc as u64 + w, "C03.cksum: add_u64 adds the four words");
    assert!(spec_sum16(&v64.to_be_bytes(), 0) as u64 == w, "C03.cksum: add_u64 equals the big-endian byte sum");

    let any_acc: u32 = kani::any();
    let f = ChecksumDigest::fold_checksum(any_acc);
    assert!(f <= 0xffff, "C03.cksum: fold result fits 16 bits");
    assert!(f as u16 == spec_fold(any_acc), "C03.cksum: fold equals end-around-carry folding");
    assert!((f == 0) == (any_acc == 0), "C03.cksum: fold is zero only for a zero sum");
    assert!(f as u64 % 0xffff == any_acc as u64 % 0xffff, "C03.cksum: fold preserves the value modulo 0xffff");
    let c = ChecksumDigest { checksum_with_overflow: any_acc }.checksum();
    assert!(c == !(f as u16), "C03.cksum: checksum is the complement of the folded sum");
    kani::cover!(any_acc == 0xffff_ffff, "maximal accumulator");
}
