// Contract module for property C16 (ACL, hop predicates, hop extraction): included from
// crates/libs/sciparse/src/scion/path/policy/acl.rs by
//   #[cfg(kani)] #[path = "/verif/kani/sciparse/policy_acl.rs"] mod verif_policy_acl;
// A descendant of `scion::path`, so it can build a `ScionPath` field-wise.
//
// Specification source: the property statement (first-match ACL) and the documented predicate table
// (types.rs / isd.rs / asn.rs doc comments): ISD 0, AS 0 and interface 0 are wildcards; `#i` = either
// interface, `#i,e` = exact ingress and egress; `Isd::matches`/`Asn::matches` "take wildcards into
// account" on BOTH sides (a hop whose ISD/AS is 0 matches every predicate).
#![allow(dead_code)]

use std::str::FromStr;

use super::*;
use crate::{
    dataplane_path::view::ScionDpPathView,
    identifier::{asn::Asn, isd::Isd, isd_asn::IsdAsn},
    path::{
        ScionPath,
        metadata::{InterfaceMetadata, PathMetadata, path_interface::PathInterface},
        policy::types::{InterfacePredicate, InterfacesPredicate},
    },
};

const ASN_MAX: u64 = 0xffff_ffff_ffff;

// ------------------------------------------------------------------------------------------------
// generators (full predicate alphabet) and the specification
// ------------------------------------------------------------------------------------------------

fn any_ifs() -> InterfacesPredicate {
    let k: u8 = kani::any();
    kani::assume(k < 3);
    match k {
        0 => InterfacesPredicate::Any,
        1 => InterfacesPredicate::Either(InterfacePredicate::new(kani::any())),
        _ => InterfacesPredicate::Both {
            ingress: InterfacePredicate::new(kani::any()),
            egress: InterfacePredicate::new(kani::any()),
        },
    }
}

fn any_pred() -> HopPredicate {
    let asn = if kani::any() {
        let a: u64 = kani::any();
        kani::assume(a <= ASN_MAX); // representation invariant of Asn
        Some(Asn(a))
    } else {
        None
    };
    HopPredicate {
        isd: Isd(kani::any()),
        asn,
        interfaces: any_ifs(),
    }
}

fn any_hop() -> PathPolicyHop {
    PathPolicyHop {
        isd_asn: IsdAsn(kani::any()),
        ingress: kani::any(),
        egress: kani::any(),
    }
}

fn wild_eq(p: u64, v: u64) -> bool {
    p == 0 || v == 0 || p == v
}

fn spec_if(p: u16, v: u16) -> bool {
    p == 0 || p == v
}

fn spec_ifs(p: &InterfacesPredicate, ing: u16, eg: u16) -> bool {
    match p {
        InterfacesPredicate::Any => true,
        InterfacesPredicate::Either(a) => spec_if(a.into_inner(), ing) || spec_if(a.into_inner(), eg),
        InterfacesPredicate::Both { ingress, egress } => {
            spec_if(ingress.into_inner(), ing) && spec_if(egress.into_inner(), eg)
        }
    }
}

fn spec_pred(p: &HopPredicate, h: &PathPolicyHop) -> bool {
    let h_isd = h.isd_asn.0 >> 48;
    let h_asn = h.isd_asn.0 & ASN_MAX;
    wild_eq(p.isd.0 as u64, h_isd)
        && (match p.asn {
            Some(a) => wild_eq(a.0, h_asn),
            None => true,
        })
        && spec_ifs(&p.interfaces, h.ingress, h.egress)
}

/// first entry whose predicate matches decides, the default when none matches
fn spec_first_match(entries: &[AclEntry], default: AclEntryOperator, h: &PathPolicyHop) -> AclEntryOperator {
    let mut i = 0;
    while i < entries.len() {
        if spec_pred(&entries[i].hop_predicate, h) {
            return entries[i].operator;
        }
        i += 1;
    }
    default
}

fn any_op() -> AclEntryOperator {
    if kani::any() { AclEntryOperator::Allow } else { AclEntryOperator::Deny }
}

// ------------------------------------------------------------------------------------------------
// predicate semantics [P]: loop-free, every operand fully symbolic
// ------------------------------------------------------------------------------------------------

#[kani::proof]
fn c16_pred_isd_asn_wildcards() {
    let a = Isd(kani::any());
    let b = Isd(kani::any());
    assert!(a.matches(b) == wild_eq(a.0 as u64, b.0 as u64), "C16.pred-isd: Isd::matches differs from the wildcard table");
    let x: u64 = kani::any();
    let y: u64 = kani::any();
    kani::assume(x <= ASN_MAX && y <= ASN_MAX);
    assert!(Asn(x).matches(Asn(y)) == wild_eq(x, y), "C16.pred-asn: Asn::matches differs from the wildcard table");
    kani::cover!(a.0 == 0 && b.0 != 0, "ISD wildcard on the predicate side");
    kani::cover!(a.0 != 0 && b.0 != 0 && a.0 != b.0, "ISD mismatch");
    kani::cover!(x != 0 && y != 0 && x == y, "AS exact match");
}

#[kani::proof]
fn c16_pred_interfaces() {
    let p = any_ifs();
    let ing: u16 = kani::any();
    let eg: u16 = kani::any();
    let r = p.matches(ing, eg);
    assert!(r == spec_ifs(&p, ing, eg), "C16.pred-ifs: InterfacesPredicate::matches differs from the documented table");
    match p {
        InterfacesPredicate::Either(a) => {
            // `#i`: either interface; `#0`: anything
            kani::cover!(a.into_inner() != 0 && r && ing != a.into_inner(), "Either matched on egress only");
            kani::cover!(a.into_inner() != 0 && !r, "Either rejected");
            kani::cover!(a.into_inner() == 0 && r, "Either wildcard");
        }
        InterfacesPredicate::Both { ingress, egress } => {
            kani::cover!(ingress.into_inner() == 0 && egress.into_inner() != 0 && r, "Both with ingress wildcard");
            kani::cover!(ingress.into_inner() != 0 && egress.into_inner() != 0 && !r, "Both rejected");
        }
        InterfacesPredicate::Any => {
            kani::cover!(r, "Any");
        }
    }
}

#[kani::proof]
fn c16_pred_hop() {
    let p = any_pred();
    let h = any_hop();
    let r = h.matches(&p);
    assert!(r == spec_pred(&p, &h), "C16.pred-hop: PathPolicyHop::matches differs from the documented table");
    assert!(p.matches(h.isd_asn, h.ingress, h.egress) == r, "C16.pred-hop: HopPredicate::matches and PathPolicyHop::matches disagree");
    kani::cover!(r && p.asn.is_none(), "match with AS omitted");
    kani::cover!(r && p.asn.is_some() && p.isd.0 != 0, "match with ISD-AS given");
    kani::cover!(!r, "no match");
    // first hop has ingress 0, last hop has egress 0: `#i` still matches through the other side,
    // `#i,e` with non-zero i does not match a first hop
    kani::cover!(h.ingress == 0 && !r, "first-hop shaped hop rejected");
}

#[kani::proof]
fn c16_acl_entry() {
    let e = AclEntry::new(any_op(), any_pred());
    let h = any_hop();
    let r = e.matches(&h);
    let m = spec_pred(&e.hop_predicate, &h);
    assert!((r == AclMatchResult::Impartial) == !m, "C16.acl-entry: Impartial iff the predicate does not match");
    assert!(!m || (r == AclMatchResult::Allow) == (e.operator == AclEntryOperator::Allow), "C16.acl-entry: matching entry returns its own operator");
    kani::cover!(r == AclMatchResult::Allow, "allow");
    kani::cover!(r == AclMatchResult::Deny, "deny");
    kani::cover!(r == AclMatchResult::Impartial, "impartial");
}

// ------------------------------------------------------------------------------------------------
// ACL first-match, bounded companion of the Verus unit (counterexample finder) [B(<=3 entries, <=4 hops)]
// ------------------------------------------------------------------------------------------------

fn acl_first_match<const N: usize>() {
    // N entries (concrete count, symbolic contents), 1..=4 hops (symbolic count and contents)
    let arr: [AclEntry; N] = core::array::from_fn(|_| AclEntry::new(any_op(), any_pred()));
    let acl = AclPolicy { entries: Vec::from(arr), default: any_op() };
    let hops: [PathPolicyHop; 4] = [any_hop(), any_hop(), any_hop(), any_hop()];
    let m: usize = kani::any();
    kani::assume(m >= 1 && m <= 4); // call-site precondition: hops_from_path never yields an empty sequence
    let r = acl.matches(&hops[..m]);
    let mut all_allow = true;
    let mut j = 0;
    while j < 4 {
        if j < m && spec_first_match(&acl.entries, acl.default, &hops[j]) != AclEntryOperator::Allow {
            all_allow = false;
        }
        j += 1;
    }
    assert!(r == all_allow, "C16.acl-first-match: AclPolicy::matches differs from `every hop's first matching entry (or the default) is Allow`");
    kani::cover!(r && m == 4, "allowed, 4 hops");
    kani::cover!(!r && m == 4, "denied, 4 hops");
    kani::cover!(!r && acl.default == AclEntryOperator::Allow || N == 0, "denied by an entry");
    kani::cover!(!r && acl.default == AclEntryOperator::Deny, "denied (default deny)");
    core::mem::forget(acl); // no drop glue in the proof
}

#[kani::proof]
#[kani::unwind(6)]
fn c16_acl_first_match_e0() {
    acl_first_match::<0>();
}

#[kani::proof]
#[kani::unwind(6)]
fn c16_acl_first_match_e1() {
    acl_first_match::<1>();
}

#[kani::proof]
#[kani::unwind(6)]
fn c16_acl_first_match_e2() {
    acl_first_match::<2>();
}

#[kani::proof]
#[kani::unwind(6)]
fn c16_acl_first_match_e3() {
    acl_first_match::<3>();
}

// ------------------------------------------------------------------------------------------------
// hops_from_path [B(<=4 interfaces)]
// ------------------------------------------------------------------------------------------------

fn path_with(metadata: Option<PathMetadata>) -> ScionPath {
    ScionPath {
        src_ia: IsdAsn(kani::any()),
        dst_ia: IsdAsn(kani::any()),
        dp_path: ScionDpPathView::Empty,
        metadata,
        next_hop: None,
        _cp_fingerprint: None,
        // irrelevant to hops_from_path; avoids SHA-256 in the harness
        _fingerprint: unsafe { core::mem::transmute::<[u8; 32], crate::path::fingerprint::data_plane::DpPathFingerprint>([0u8; 32]) },
        _expiration: None,
    }
}

fn meta(interfaces: Option<Vec<InterfaceMetadata>>) -> PathMetadata {
    PathMetadata { expiration: 0, mtu: 0, interfaces, epic_auth: None, notes: None }
}

#[kani::proof]
#[kani::unwind(6)]
fn c16_hops_from_path_no_metadata() {
    let p = path_with(None);
    assert!(PathPolicyHop::hops_from_path(&p).is_err(), "C16.hops-err: path without metadata must be an error");
    let p = path_with(Some(meta(None)));
    assert!(PathPolicyHop::hops_from_path(&p).is_err(), "C16.hops-err: metadata without interfaces must be an error");
    let p = path_with(Some(meta(Some(Vec::new()))));
    assert!(PathPolicyHop::hops_from_path(&p).is_err(), "C16.hops-err: empty interface list must be an error");
}

fn hops_from_path_n<const N: usize>() {
    // exactly N interfaces (concrete count, symbolic contents); a symbolic-length Vec of the 100+ byte
    // InterfaceMetadata exhausts memory in CBMC
    let ia: [u64; 4] = kani::any();
    let id: [u16; 4] = kani::any();
    let arr: [InterfaceMetadata; N] = core::array::from_fn(|i| InterfaceMetadata {
        interface: PathInterface { isd_asn: IsdAsn(ia[i]), id: id[i] },
        geo_info: None,
        latency: None,
        bandwidth: None,
        link: None,
    });
    let n = N;
    let p = path_with(Some(meta(Some(Vec::from(arr)))));
    let r = PathPolicyHop::hops_from_path(&p);
    match &r {
        Ok(h) => {
            assert!(n % 2 == 0, "C16.hops-shape: Ok although the number of interfaces is odd");
            assert!(h.len() == n / 2 + 1, "C16.hops-shape: wrong number of hops");
            assert!(h.len() >= 2, "C16.hops-shape: fewer than two hops");
            let first = h[0];
            let last = h[h.len() - 1];
            assert!(first.ingress == 0, "C16.hops-first: first hop ingress must be 0");
            assert!(first.egress == id[0] && first.isd_asn.0 == ia[0], "C16.hops-first: first hop is not interface 0");
            assert!(last.egress == 0, "C16.hops-last: last hop egress must be 0");
            assert!(last.ingress == id[n - 1] && last.isd_asn.0 == ia[n - 1], "C16.hops-last: last hop is not the last interface");
            if n == 4 {
                assert!(ia[1] == ia[2], "C16.hops-mid: interfaces of one hop in different ASes accepted");
                assert!(h[1].ingress == id[1] && h[1].egress == id[2] && h[1].isd_asn.0 == ia[1], "C16.hops-mid: middle hop wrong");
            }
        }
        Err(_) => {
            assert!(n % 2 == 1 || (n == 4 && ia[1] != ia[2]), "C16.hops-complete: a well-formed interface list was rejected");
        }
    }
    kani::cover!(r.is_ok() || n % 2 == 1, "accepted");
    kani::cover!(r.is_err() || n == 2, "rejected");
    core::mem::forget(p);
    core::mem::forget(r);
}

#[kani::proof]
#[kani::unwind(7)]
fn c16_hops_from_path_i1() {
    hops_from_path_n::<1>();
}

#[kani::proof]
#[kani::unwind(7)]
fn c16_hops_from_path_i2() {
    hops_from_path_n::<2>();
}

#[kani::proof]
#[kani::unwind(7)]
fn c16_hops_from_path_i3() {
    hops_from_path_n::<3>();
}

#[kani::proof]
#[kani::unwind(7)]
fn c16_hops_from_path_i4() {
    hops_from_path_n::<4>();
}

// ------------------------------------------------------------------------------------------------
// HopPredicate text form [B(n bytes)]: parser total, Display . parse
// ------------------------------------------------------------------------------------------------

fn assume_ascii<const N: usize>(buf: &[u8; N], len: usize) {
    kani::assume(len <= N);
    let mut i = 0;
    while i < N {
        if i < len {
            // the separator alphabet and hex digits, plus two "other" classes (letter, space)
            let b = buf[i];
            kani::assume(b < 0x80);
        }
        i += 1;
    }
}

fn hop_pred_parse_total<const N: usize>() {
    let buf: [u8; N] = kani::any();
    let len: usize = kani::any();
    assume_ascii(&buf, len);
    let s = unsafe { core::str::from_utf8_unchecked(&buf[..len]) };
    let r = HopPredicate::from_str(s);
    if let Ok(p) = &r {
        // accepted => `isd` [ `-` as [ `#` if [ `,` if ] ] ]: no other characters
        let mut i = 0;
        while i < N {
            if i < len {
                let b = buf[i];
                let ok = (b >= b'0' && b <= b'9') || (b >= b'a' && b <= b'f') || (b >= b'A' && b <= b'F')
                    || b == b'-' || b == b'#' || b == b',' || b == b':' || b == b'+';
                assert!(ok, "C16.pred-parse-lang: accepted hop predicate contains a foreign character");
            }
            i += 1;
        }
        if let Some(a) = p.asn {
            assert!(a.0 <= ASN_MAX, "C16.pred-parse-lang: AS out of range");
        }
    }
    kani::cover!(matches!(r, Ok(HopPredicate { asn: None, .. })), "ISD only");
    kani::cover!(matches!(r, Ok(HopPredicate { asn: Some(_), interfaces: InterfacesPredicate::Either(_), .. })), "with one interface");
    kani::cover!(r.is_err() && len > 0, "rejected");
}

#[kani::proof]
#[kani::unwind(8)]
fn c16_hop_pred_parse_n6() {
    hop_pred_parse_total::<6>();
}

#[kani::proof]
#[kani::unwind(10)]
fn c16_hop_pred_parse_n8() {
    hop_pred_parse_total::<8>();
}

struct Sink {
    buf: [u8; 48],
    len: usize,
}
impl core::fmt::Write for Sink {
    fn write_str(&mut self, s: &str) -> core::fmt::Result {
        let b = s.as_bytes();
        if self.len + b.len() > 48 {
            return Err(core::fmt::Error);
        }
        let mut i = 0;
        while i < b.len() {
            self.buf[self.len + i] = b[i];
            i += 1;
        }
        self.len += b.len();
        Ok(())
    }
}

/// "Hop predicates survive printing and re-parsing": small-number alphabet (values < 10, so the
/// printed form is <= 8 bytes: `i-a#x,y`), full structure alphabet.
#[kani::proof]
#[kani::unwind(50)]
fn c16_hop_pred_display_parse_b() {
    use core::fmt::Write as _;
    let p = any_pred();
    kani::assume(p.isd.0 < 10);
    if let Some(a) = p.asn {
        kani::assume(a.0 < 10);
    }
    match p.interfaces {
        InterfacesPredicate::Any => {}
        InterfacesPredicate::Either(a) => kani::assume(a.into_inner() < 10),
        InterfacesPredicate::Both { ingress, egress } => {
            kani::assume(ingress.into_inner() < 10 && egress.into_inner() < 10)
        }
    }
    // `1#2` cannot be written: interfaces need an AS (documented grammar)
    kani::assume(p.asn.is_some() || matches!(p.interfaces, InterfacesPredicate::Any));
    let mut sink = Sink { buf: [0; 48], len: 0 };
    let w = write!(sink, "{}", p);
    assert!(w.is_ok(), "C16.pred-roundtrip: Display failed");
    let s = unsafe { core::str::from_utf8_unchecked(&sink.buf[..sink.len]) };
    let back = HopPredicate::from_str(s);
    assert!(back == Ok(p), "C16.pred-roundtrip: parse(display(p)) != p");
    kani::cover!(matches!(p.interfaces, InterfacesPredicate::Both { .. }), "both interfaces");
    kani::cover!(p.asn.is_none(), "ISD only");
}
