// Contract module for crates/libs/sciparse/src/proto/payload/scmp/layout.rs (property C14, clause 1).
// Included from the real crate by `#[cfg(kani)] #[path = ...] mod verif_c14_scmp_layout;`.
//
// Contract of `<ErrorLayout>::from_offending_packet_length(off, hdr)` for each of the five SCMP
// error layouts (harness level; the functions are loop-free, `off` ranges over all of usize, `hdr`
// over all legal SCION header sizes 0..=1020, so the result is in the proved class):
//
//   requires hdr <= 1020                                  (HdrLen is one byte, unit 4 bytes)
//   ensures  hdr + size_bytes() <= 1232                   (SCMP error packets never exceed 1232 B)
//            size_bytes() >= H  /\  size_bytes() - H <= off   (quote no longer than the offender)
//            hdr + H + off <= 1232 ==> size_bytes() - H == off   (whole offender quoted when it fits)
//            offending_packet_rng() == bytes [H, size_bytes())   (quote sits right behind the SCMP header)
//
// H is the byte offset at which the quoted packet starts in the wire format of the message type,
// written below (SPEC_H_*) from the SCMP specification, not taken from the crate's constants.
#![allow(dead_code)]

use super::*;

/// Maximum SCION packet size an SCMP error message may have (SCMP specification).
const SPEC_MAX: usize = 1232;
/// Maximum SCION header length: HdrLen (8 bit) * 4.
const SPEC_MAX_HDR: usize = 1020;

// Offsets of the quoted offending packet in the SCMP wire format:
//   type(1) code(1) checksum(2) + type specific fixed part
const SPEC_H_DEST_UNREACHABLE: usize = 4 + 4; // + unused(4)
const SPEC_H_PACKET_TOO_BIG: usize = 4 + 4; // + reserved(2) mtu(2)
const SPEC_H_PARAMETER_PROBLEM: usize = 4 + 4; // + reserved(2) pointer(2)
const SPEC_H_EXT_IF_DOWN: usize = 4 + 8 + 8; // + isd-as(8) interface(8)
const SPEC_H_INT_CONN_DOWN: usize = 4 + 8 + 8 + 8; // + isd-as(8) ingress(8) egress(8)

macro_rules! budget_harness {
    ($name:ident, $layout:ty, $h:expr) => {
        #[kani::proof]
        fn $name() {
            let off: usize = kani::any();
            let hdr: usize = kani::any();
            kani::assume(hdr <= SPEC_MAX_HDR); // requires
            let l = <$layout>::from_offending_packet_length(off, hdr);
            let s = l.size_bytes();
            assert!(s >= $h, "C14.budget: SCMP error message shorter than its fixed header");
            assert!(hdr + s <= SPEC_MAX, "C14.budget: SCMP error packet exceeds 1232 bytes");
            let q = s - $h;
            assert!(q <= off, "C14.quote_len: quoted length exceeds the offending packet length");
            if off <= SPEC_MAX && hdr + $h + off <= SPEC_MAX {
                assert!(q == off, "C14.quote_len: offending packet fits but is not quoted completely");
            }
            let r = l.offending_packet_rng().aligned_byte_range();
            assert!(r.start == $h && r.end == s, "C14.quote_pos: quote range is not [header, size)");
            kani::cover!(q == off && off > 0, "whole offending packet quoted");
            kani::cover!(q < off, "offending packet truncated");
            kani::cover!(hdr + s == SPEC_MAX, "budget exhausted exactly");
            kani::cover!(off == usize::MAX, "maximal offending length");
        }
    };
}

budget_harness!(c14_budget_dest_unreachable, ScmpDestinationUnreachableLayout, SPEC_H_DEST_UNREACHABLE);
budget_harness!(c14_budget_packet_too_big, ScmpPacketTooBigLayout, SPEC_H_PACKET_TOO_BIG);
budget_harness!(c14_budget_parameter_problem, ScmpParameterProblemLayout, SPEC_H_PARAMETER_PROBLEM);
budget_harness!(c14_budget_ext_if_down, ScmpExternalInterfaceDownLayout, SPEC_H_EXT_IF_DOWN);
budget_harness!(c14_budget_int_conn_down, ScmpInternalConnectivityDownLayout, SPEC_H_INT_CONN_DOWN);
