// Contract module for property C02, obligations (1)-(3) for the packet views (Raw / Udp / Scmp), the UDP
// datagram view and the SCMP payload / message views.
// Included from crates/libs/sciparse/src/proto/packet/view.rs by
//   #[cfg(kani)] #[path = "/verif/kani/sciparse/c02_packet_view.rs"] mod verif_c02_packet_view;
//
// Inv for packet views: has_required_size(bytes) == Ok(bytes.len()) (the view is built over bytes[..n]).
// Memory-safety part of Inv that accessors rely on (and that safe mutators must preserve):
//   Raw  : header Inv on the prefix, HdrLen*4 <= len
//   Udp  : Raw  and payload().len() >= 8
//   UdpDatagramView : len >= 8
//   ScmpPayloadView : ScmpMessageLayout(bytes) fits, i.e. len >= fixed size of the message type in byte 0
#![allow(dead_code, unused_imports)]

use super::*;
use crate::{
    core::view::View,
    payload::scmp::view::{ScmpMessageView, ScmpMessageViewMut},
    scion::identifier::{asn::Asn, isd_asn::IsdAsn},
};

const NK: usize = 80; // 36..68 byte headers (empty / one-hop path, 4-byte hosts) + up to 44 payload bytes

fn inside(outer: &[u8], p: *const u8, len: usize) -> bool {
    let off = unsafe { p.offset_from(outer.as_ptr()) };
    off >= 0 && (off as usize) + len <= outer.len()
}

// ------------------------------------------------------------------------------------------
// raw packet view
// ------------------------------------------------------------------------------------------

#[kani::proof]
fn c02_pkt_raw_ctor_accessors() {
    let buf: [u8; NK] = kani::any();
    let len: usize = kani::any();
    kani::assume(len <= NK);
    let b = &buf[..len];
    match ScionRawPacketView::try_from_slice(b) {
        Ok((v, rest)) => {
            let vs = v.as_slice();
            assert!(vs.as_ptr() == b.as_ptr() && vs.len() + rest.len() == len, "C02.ctor: packet view is a prefix of the input");
            assert!(rest.as_ptr() == unsafe { b.as_ptr().add(vs.len()) }, "C02.ctor: packet rest follows the view");
            assert!(ScionRawPacketView::has_required_size(vs) == Ok(vs.len()), "C02.ctor: Inv holds on the packet view");
            let h = v.header();
            let hs = h.as_slice();
            assert!(hs.as_ptr() == vs.as_ptr() && hs.len() == h.header_len() as usize && hs.len() <= vs.len(), "C02.acc: header() is the HdrLen*4 prefix of the packet");
            assert!(ScionHeaderView::has_required_size(hs) == Ok(hs.len()), "C02.acc: Inv of the header sub-view");
            let p = v.payload();
            assert!(inside(vs, p.as_ptr(), p.len()), "C02.acc: payload() inside the packet");
            assert!(p.as_ptr() == unsafe { vs.as_ptr().add(hs.len()) } && hs.len() + p.len() == vs.len(), "C02.acc: payload() is the packet tail");
            assert!(p.len() <= h.payload_len() as usize, "C02.acc: payload() never longer than PayloadLen");
            let _ = v.src_scion_addr();
            let _ = v.dst_scion_addr();
            kani::cover!(p.len() < h.payload_len() as usize, "truncated payload");
            kani::cover!(!rest.is_empty() && p.len() == 5, "trailing bytes after the payload");
            kani::cover!(hs.len() == 68, "one-hop path header");
        }
        Err(_) => {
            kani::cover!(len >= 36, "header rejected");
        }
    }
}

#[kani::proof]
fn c02_pkt_raw_classify() {
    let buf: [u8; NK] = kani::any();
    let len: usize = kani::any();
    kani::assume(len <= NK);
    let Ok((v, _)) = ScionRawPacketView::try_from_slice(&buf[..len]) else { return };
    let vs = v.as_slice();
    match v.try_as_udp() {
        Ok(u) => {
            assert!(u.as_slice().as_ptr() == vs.as_ptr() && u.as_slice().len() == vs.len(), "C02.acc: try_as_udp keeps the bytes");
            assert!(v.payload().len() >= 8 && v.header().next_header() == ProtocolNumber::Udp, "C02.acc: try_as_udp only with a UDP header present");
            let d = u.udp();
            assert!(inside(vs, d.as_slice().as_ptr(), d.as_slice().len()), "C02.acc: udp() inside the packet");
            kani::cover!(true, "udp packet");
        }
        Err(_) => {}
    }
    match v.try_as_scmp() {
        Ok(s) => {
            assert!(s.as_slice().as_ptr() == vs.as_ptr() && s.as_slice().len() == vs.len(), "C02.acc: try_as_scmp keeps the bytes");
            let m = s.scmp();
            assert!(inside(vs, m.as_slice().as_ptr(), m.as_slice().len()), "C02.acc: scmp() inside the packet");
            kani::cover!(true, "scmp packet");
        }
        Err(_) => {}
    }
    let c = v.try_classify();
    kani::cover!(c.is_err(), "malformed upper layer");
    kani::cover!(matches!(c, Ok(ClassifiedPacketView::Other(_))), "other protocol");
}

#[kani::proof]
fn c02_pkt_raw_mutators_preserve_inv() {
    let mut buf: [u8; NK] = kani::any();
    let len: usize = kani::any();
    kani::assume(len <= NK);
    let vlen;
    {
        let Ok((v, _)) = ScionRawPacketView::try_from_mut_slice(&mut buf[..len]) else { return };
        vlen = v.as_slice().len();
        let base = v.as_slice().as_ptr();
        let hl = v.header().header_len() as usize;
        {
            let p = v.payload_mut();
            let off = unsafe { p.as_ptr().offset_from(base) };
            assert!(off as usize == hl && hl + p.len() == vlen, "C02.mut: payload_mut() is the packet tail");
            let k: usize = kani::any();
            if k < p.len() {
                p[k] = kani::any();
                kani::cover!(k == 7, "payload byte written");
            }
        }
        let h = v.header_mut();
        assert!(h.as_slice().as_ptr() == base && h.as_slice().len() == hl, "C02.mut: header_mut() is the HdrLen*4 prefix");
        h.set_traffic_class(kani::any());
        h.set_flow_id(kani::any());
        h.set_next_header(ProtocolNumber::from(kani::any::<u8>()));
        h.set_dst_as(Asn(kani::any()));
    }
    assert!(ScionRawPacketView::has_required_size(&buf[..vlen]) == Ok(vlen), "C02.mut: raw packet mutators preserve Inv");
}

// ------------------------------------------------------------------------------------------
// UDP packet view
// ------------------------------------------------------------------------------------------

#[kani::proof]
fn c02_pkt_udp_ctor_accessors() {
    let mut buf: [u8; NK] = kani::any();
    let len: usize = kani::any();
    kani::assume(len <= NK);
    let vlen;
    {
        let Ok((v, rest)) = ScionUdpPacketView::try_from_mut_slice(&mut buf[..len]) else { return };
        vlen = v.as_slice().len();
        assert!(vlen + rest.len() == len, "C02.ctor: udp packet view and rest partition the input");
        let vs_ptr = v.as_slice().as_ptr();
        let hl = v.header().header_len() as usize;
        assert!(v.payload().len() >= 8 && hl + v.payload().len() == vlen, "C02.ctor: udp packet has a full UDP header");
        let d = v.udp();
        let ds = d.as_slice();
        assert!(ds.as_ptr() == unsafe { vs_ptr.add(hl) } && ds.len() >= 8 && hl + ds.len() <= vlen, "C02.acc: udp() starts the payload and stays inside");
        assert!(ds.len() == core::cmp::min(d.length() as usize, vlen - hl), "C02.acc: udp() length is min(UDP length, available)");
        let _ = (d.src_port(), d.dst_port(), d.checksum());
        assert!(d.payload().len() + 8 == ds.len(), "C02.acc: UDP payload follows the 8-byte header");
        let _ = v.src_socket_addr();
        let _ = v.dst_socket_addr();
        let r = v.as_raw();
        assert!(r.as_slice().as_ptr() == vs_ptr && r.as_slice().len() == vlen, "C02.acc: as_raw keeps the bytes");
        kani::cover!(ds.len() < vlen - hl, "UDP length shorter than the SCION payload");
        kani::cover!((d.length() as usize) > vlen - hl, "UDP length longer than available");
        // safe mutators reachable from &mut ScionUdpPacketView without as_raw_mut
        let h = v.header_mut();
        h.set_traffic_class(kani::any());
        h.set_flow_id(kani::any());
        h.set_next_header(ProtocolNumber::from(kani::any::<u8>()));
        let _ = v.udp().length();
    }
    assert!(ScionUdpPacketView::has_required_size(&buf[..vlen]) == Ok(vlen), "C02.mut: udp packet header setters preserve Inv");
}

/// `as_raw_mut()` is a SAFE fn: everything reachable through it is a safe mutator of the UDP packet view.
/// Contract: afterwards every safe accessor is still panic-free and in bounds.
#[kani::proof]
fn c02_pkt_udp_as_raw_mut_then_accessors() {
    let mut buf: [u8; NK] = kani::any();
    let len: usize = kani::any();
    kani::assume(len <= NK);
    let Ok((v, _)) = ScionUdpPacketView::try_from_mut_slice(&mut buf[..len]) else { return };
    let vlen = v.as_slice().len();
    let hl = v.header().header_len() as usize;
    {
        #[allow(unused_unsafe)]
        let raw = unsafe { v.as_raw_mut() };
        let p = raw.payload_mut();
        let k: usize = kani::any();
        kani::assume(k < p.len());
        p[k] = kani::any();
        kani::cover!(k == 5, "UDP length low byte written");
    }
    // memory-safety part of Inv
    assert!(ScionRawPacketView::has_required_size(v.as_slice()) == Ok(vlen) && v.payload().len() >= 8, "C02.mut: as_raw_mut writes keep the raw Inv and the 8-byte UDP header");
    let d = v.udp(); // "C02.mut" obligation: must not panic (reported by Kani as a failed `expect`)
    let ds = d.as_slice();
    assert!(ds.len() >= 8 && hl + ds.len() <= vlen, "C02.mut: udp() after as_raw_mut writes stays inside the packet");
    let _ = (d.src_port(), d.dst_port(), d.length(), d.checksum(), d.payload().len());
    let _ = v.src_socket_addr();
}

// ------------------------------------------------------------------------------------------
// UDP datagram view
// ------------------------------------------------------------------------------------------

#[kani::proof]
fn c02_udp_datagram_view() {
    let mut buf: [u8; 24] = kani::any();
    let len: usize = kani::any();
    kani::assume(len <= 24);
    let base = buf.as_ptr();
    match UdpDatagramView::try_from_mut_slice(&mut buf[..len]) {
        Ok((v, rest)) => {
            let vl = v.as_slice().len();
            assert!(v.as_slice().as_ptr() == base && vl + rest.len() == len && vl >= 8, "C02.ctor: udp datagram view is a prefix of at least 8 bytes");
            assert!(vl == core::cmp::min(len, v.length() as usize), "C02.ctor: udp datagram view length = min(len, Length)");
            let p = v.payload();
            assert!(p.as_ptr() == unsafe { base.add(8) } && p.len() == vl - 8, "C02.acc: udp payload is the view tail");
            // safe mutators with arbitrary values, arbitrary payload writes
            v.set_src_port(kani::any());
            v.set_dst_port(kani::any());
            v.set_length(kani::any());
            v.set_checksum(kani::any());
            let k: usize = kani::any();
            let pm = v.payload_mut();
            if k < pm.len() {
                pm[k] = kani::any();
            }
            // accessors rely only on len >= 8, which no safe mutator changes
            assert!(v.as_slice().len() == vl, "C02.mut: udp datagram mutators keep the view length");
            let _ = (v.src_port(), v.dst_port(), v.length(), v.checksum());
            assert!(v.payload().len() == vl - 8, "C02.mut: udp payload after mutation is still the view tail");
            kani::cover!(vl == 8, "header only");
            kani::cover!(!rest.is_empty(), "Length field shorter than the buffer");
            kani::cover!(v.length() < 8, "set_length wrote a value below the header size (strict Inv not preserved, accessors unaffected)");
        }
        Err(_) => {
            kani::cover!(len >= 8, "Length field below 8");
            kani::cover!(len < 8, "too short");
        }
    }
}

// ------------------------------------------------------------------------------------------
// SCMP payload view and message views
// ------------------------------------------------------------------------------------------

const NS: usize = 40;

fn scmp_fixed_size(t: u8) -> usize {
    // SCMP specification: fixed part of each message type
    match t {
        1 | 2 | 4 => 8,
        5 => 20,
        6 => 28,
        128 | 129 => 8,
        130 | 131 => 24,
        _ => 8,
    }
}

#[kani::proof]
fn c02_scmp_payload_ctor_message() {
    let buf: [u8; NS] = kani::any();
    let len: usize = kani::any();
    kani::assume(len <= NS);
    let b = &buf[..len];
    match ScmpPayloadView::try_from_slice(b) {
        Ok((v, rest)) => {
            let vs = v.as_slice();
            assert!(vs.as_ptr() == b.as_ptr() && vs.len() + rest.len() == len, "C02.ctor: scmp view is a prefix of the input");
            assert!(vs.len() >= scmp_fixed_size(buf[0]), "C02.ctor: scmp view holds the fixed part of its message type");
            assert!(ScmpPayloadView::has_required_size(vs) == Ok(vs.len()), "C02.ctor: Inv holds on the scmp view");
            let _ = (v.message_type(), v.code(), v.checksum());
            match v.message() {
                ScmpMessageView::DestinationUnreachable(m) => {
                    let o = m.offending_packet();
                    assert!(m.as_slice().as_ptr() == vs.as_ptr() && m.as_slice().len() == vs.len() && inside(vs, o.as_ptr(), o.len()) && o.len() + 8 == vs.len(), "C02.acc: destination unreachable view / offending packet inside");
                    let _ = (m.code(), m.checksum(), m.reserved());
                    kani::cover!(o.len() == 3, "short quote");
                }
                ScmpMessageView::PacketTooBig(m) => {
                    let o = m.offending_packet();
                    assert!(m.as_slice().len() == vs.len() && inside(vs, o.as_ptr(), o.len()) && o.len() + 8 == vs.len(), "C02.acc: packet too big view / offending packet inside");
                    let _ = (m.code(), m.checksum(), m.mtu());
                }
                ScmpMessageView::ParameterProblem(m) => {
                    let o = m.offending_packet();
                    assert!(m.as_slice().len() == vs.len() && inside(vs, o.as_ptr(), o.len()) && o.len() + 8 == vs.len(), "C02.acc: parameter problem view / offending packet inside");
                }
                ScmpMessageView::ExternalInterfaceDown(m) => {
                    let o = m.offending_packet();
                    assert!(m.as_slice().len() == vs.len() && inside(vs, o.as_ptr(), o.len()) && o.len() + 20 == vs.len(), "C02.acc: external interface down view / offending packet inside");
                    let _ = (m.code(), m.checksum(), m.isd_asn(), m.interface_id());
                    kani::cover!(true, "external interface down");
                }
                ScmpMessageView::InternalConnectivityDown(m) => {
                    let o = m.offending_packet();
                    assert!(m.as_slice().len() == vs.len() && inside(vs, o.as_ptr(), o.len()) && o.len() + 28 == vs.len(), "C02.acc: internal connectivity down view / offending packet inside");
                    let _ = (m.isd_asn(), m.ingress_interface_id(), m.egress_interface_id());
                    kani::cover!(o.len() == 12, "internal connectivity down with a 12-byte quote");
                }
                ScmpMessageView::EchoRequest(m) => {
                    let d = m.data();
                    assert!(m.as_slice().len() == vs.len() && inside(vs, d.as_ptr(), d.len()) && d.len() + 8 == vs.len(), "C02.acc: echo request view / data inside");
                    let _ = (m.identifier(), m.sequence_number());
                }
                ScmpMessageView::EchoReply(m) => {
                    let d = m.data();
                    assert!(m.as_slice().len() == vs.len() && inside(vs, d.as_ptr(), d.len()) && d.len() + 8 == vs.len(), "C02.acc: echo reply view / data inside");
                }
                ScmpMessageView::TracerouteRequest(m) => {
                    assert!(m.as_slice().as_ptr() == vs.as_ptr() && m.as_slice().len() == 24, "C02.acc: traceroute request view is 24 bytes");
                    let _ = (m.identifier(), m.sequence_number(), m.isd_asn(), m.interface_id());
                    kani::cover!(!rest.is_empty(), "traceroute request with trailing bytes");
                }
                ScmpMessageView::TracerouteReply(m) => {
                    assert!(m.as_slice().len() == 24, "C02.acc: traceroute reply view is 24 bytes");
                    let _ = (m.identifier(), m.sequence_number(), m.isd_asn(), m.interface_id());
                }
                ScmpMessageView::Unknown(m) => {
                    let d = m.message_specific_data();
                    assert!(m.as_slice().len() == vs.len() && inside(vs, d.as_ptr(), d.len()) && d.len() + 8 == vs.len(), "C02.acc: unknown message view / data inside");
                    kani::cover!(true, "unknown message type");
                }
            }
        }
        Err(_) => {
            kani::cover!(len >= 8, "fixed part of the message type does not fit");
            kani::cover!(len < 4, "no SCMP header");
        }
    }
}

/// Safe setters reachable through message_mut() must preserve Inv of the payload view (the message type
/// decides how many bytes the typed accessors read).
#[kani::proof]
fn c02_scmp_message_mut_preserves_inv() {
    let mut buf: [u8; NS] = kani::any();
    let len: usize = kani::any();
    kani::assume(len <= NS);
    let vlen;
    {
        let Ok((v, _)) = ScmpPayloadView::try_from_mut_slice(&mut buf[..len]) else { return };
        vlen = v.as_slice().len();
        v.set_code(kani::any());
        v.set_checksum(kani::any());
        match v.message_mut() {
            ScmpMessageViewMut::DestinationUnreachable(m) => {
                m.set_reserved(kani::any());
                let k: usize = kani::any();
                let o = m.offending_packet_mut();
                if k < o.len() { o[k] = kani::any(); }
            }
            ScmpMessageViewMut::PacketTooBig(m) => { m.set_mtu(kani::any()); }
            ScmpMessageViewMut::ParameterProblem(m) => { m.set_checksum(kani::any()); }
            ScmpMessageViewMut::ExternalInterfaceDown(m) => { m.set_interface_id(kani::any()); m.set_isd_asn(IsdAsn(kani::any())); }
            ScmpMessageViewMut::InternalConnectivityDown(m) => { m.set_egress_interface_id(kani::any()); }
            ScmpMessageViewMut::EchoRequest(m) => {
                m.set_identifier(kani::any());
                let k: usize = kani::any();
                let d = m.data_mut();
                if k < d.len() { d[k] = kani::any(); }
            }
            ScmpMessageViewMut::EchoReply(m) => { m.set_sequence_number(kani::any()); }
            ScmpMessageViewMut::TracerouteRequest(m) => { m.set_interface_id(kani::any()); }
            ScmpMessageViewMut::TracerouteReply(m) => { m.set_isd_asn(IsdAsn(kani::any())); }
            ScmpMessageViewMut::Unknown(m) => {
                m.set_checksum(kani::any());
                let k: usize = kani::any();
                let d = m.message_specific_data_mut();
                if k < d.len() { d[k] = kani::any(); }
                kani::cover!(true, "unknown message mutated");
            }
        }
    }
    assert!(ScmpPayloadView::has_required_size(&buf[..vlen]) == Ok(vlen), "C02.mut: scmp message setters preserve Inv");
}

// `ScmpUnknownMessageView::set_message_type` used to be a SAFE setter of the size-determining type
// byte (F-scmp-unknown-settype, repaired by fix commit cc47d8b: it is now an `unsafe fn` like on
// every sibling view and therefore outside the property by its own statement). The harness that
// exposed it (`c02_scmp_unknown_set_type_preserves_inv`) called it from safe code and no longer
// compiles; the unit's anchor scan instead requires the setter to be generated with
// `gen_unsafe_field_write!` -- if it is made safe again the check reports a lost anchor (exit 2)
// and this harness has to be restored.
