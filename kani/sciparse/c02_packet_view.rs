#![allow(dead_code, unused_imports)]
use super::*;
