// Contract module for crates/libs/sciparse/src/scion/address/addr.rs (property C15): the
// `ISD-AS,host` splitter `parse_scion_addr`, isolated from the host grammars by a harness-side
// host type that records exactly which substring it was handed.
//
//   C15.addr-exact  Ok((ia, host)) => the string has a first comma at position c, the ISD-AS part
//                   is s[..c] (contains no comma) and the host parser received EXACTLY s[c+1..]
//                   -- up to the end of the string, so nothing after the host is silently dropped;
//   totality        no panic on any string.
#![allow(dead_code)]

use std::str::FromStr;

use super::*;

struct Probe {
    ptr: usize,
    len: usize,
}
impl FromStr for Probe {
    type Err = ();
    fn from_str(s: &str) -> Result<Self, ()> {
        if kani::any() {
            Ok(Probe { ptr: s.as_ptr() as usize, len: s.len() })
        } else {
            Err(())
        }
    }
}

/// Strings over the alphabet the grammar distinguishes: digits, hex letter, '-', ':', ',', and one
/// byte that belongs to no token.
fn addr_split_contract<const N: usize>() {
    let mut buf: [u8; N] = kani::any();
    let len: usize = kani::any();
    kani::assume(len <= N);
    // keep the ISD-AS grammar out of the solver's way: the string starts with the fixed ISD-AS
    // text "1-1" (when it is that long); everything after it is arbitrary over the alphabet
    buf[0] = b'1';
    buf[1] = b'-';
    buf[2] = b'1';
    let mut i = 0;
    while i < N {
        if i < len {
            let b = buf[i];
            kani::assume(b == b'0' || b == b'1' || b == b'f' || b == b'-' || b == b':' || b == b',' || b == b'x');
        }
        i += 1;
    }
    // SAFETY: every byte of buf[..len] is ASCII (assumed above; the fixed prefix is ASCII)
    let s = unsafe { core::str::from_utf8_unchecked(&buf[..len]) };
    let r = parse_scion_addr::<Probe>(s, AddressParseError::Scion);
    if let Ok((_ia, t)) = &r {
        let base = buf.as_ptr() as usize;
        // first comma
        let mut c = 0;
        while c < len && buf[c] != b',' {
            c += 1;
        }
        assert!(c < len, "C15.addr-exact: accepted string contains no comma");
        assert!(t.ptr == base + c + 1, "C15.addr-exact: host part does not start right after the first comma");
        assert!(t.len == len - c - 1, "C15.addr-exact: host part does not extend to the end of the string (trailing text dropped)");
        kani::cover!(t.len == 0, "accepted with empty host part");
        kani::cover!(t.len > 1, "accepted with a longer host part");
    }
    kani::cover!(r.is_ok(), "some string accepted");
    kani::cover!(r.is_err() && len > 0, "some non-empty string rejected");
}

#[kani::proof]
#[kani::unwind(8)]
fn c15_scion_addr_split_n6() {
    addr_split_contract::<6>();
}
