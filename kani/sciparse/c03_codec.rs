// Contract module for property C03 (wire codec lossless, truthful, never truncates silently).
// Included from crates/libs/sciparse/src/proto/packet/model.rs by
//   #[cfg(kani)] #[path = "/verif/kani/sciparse/c03_codec.rs"] mod verif_c03_codec;
//
// Contracts (postconditions from the property statement / the SCION header specification):
//   encode contract   requires m.wire_valid() == Ok
//                     ensures  encode writes exactly m.required_size() bytes (nothing behind them),
//                              spec_decode(bytes) reads every field of m (independent reader, see `spec`),
//                              HdrLen*4 == header size, PayloadLen == payload size, UDP length == 8+len,
//                              the transport checksum verifies over the SCION pseudo header (RFC 1071),
//                              decode(bytes) == m
//   no-truncation     m.wire_valid() == Ok ==> header size <= 1020 (8-bit HdrLen*4), payload size <= 65535
//                     (16-bit PayloadLen), UDP: 8+len <= 65535 (16-bit Length)
//
// `spec` below is a second reader of the SCION header written from the wire format only (explicit byte
// offsets and shifts; no Layout table, no bit-range primitive, no view of the crate is used in it).
#![allow(dead_code, unused_imports)]

use std::net::{Ipv4Addr, Ipv6Addr};

use tinyvec::ArrayVec;

use super::*;
use crate::{
    core::encode::WireEncode,
    dataplane_path::{
        onehop::model::OneHopPath,
        standard::{
            model::{HopField, InfoField, Segment, StandardPath},
            types::{HopFieldFlags, HopFieldMac, InfoFieldFlags},
            view::{HopFieldView, InfoFieldView},
        },
        types::PathType,
    },
    scion::{
        address::host_addr::{ServiceAddr, WireHostAddr, WireHostAddrType},
        identifier::isd_asn::IsdAsn,
    },
};

// ------------------------------------------------------------------------------------------
// independent specification reader (SCION header format, draft-dekater-scion-dataplane §2)
// ------------------------------------------------------------------------------------------
mod spec {
    pub fn be16(b: &[u8], o: usize) -> u16 {
        ((b[o] as u16) << 8) | b[o + 1] as u16
    }
    pub fn be32(b: &[u8], o: usize) -> u32 {
        ((b[o] as u32) << 24) | ((b[o + 1] as u32) << 16) | ((b[o + 2] as u32) << 8) | b[o + 3] as u32
    }
    pub fn be48(b: &[u8], o: usize) -> u64 {
        ((be16(b, o) as u64) << 32) | be32(b, o + 2) as u64
    }
    // common header, 12 bytes
    pub fn version(b: &[u8]) -> u8 { b[0] >> 4 }
    pub fn traffic_class(b: &[u8]) -> u8 { (b[0] << 4) | (b[1] >> 4) }
    pub fn flow_id(b: &[u8]) -> u32 { (((b[1] & 0x0f) as u32) << 16) | ((b[2] as u32) << 8) | b[3] as u32 }
    pub fn next_hdr(b: &[u8]) -> u8 { b[4] }
    pub fn hdr_len_bytes(b: &[u8]) -> usize { b[5] as usize * 4 }
    pub fn payload_len(b: &[u8]) -> u16 { be16(b, 6) }
    pub fn path_type(b: &[u8]) -> u8 { b[8] }
    pub fn dt_dl(b: &[u8]) -> u8 { b[9] >> 4 }
    pub fn st_sl(b: &[u8]) -> u8 { b[9] & 0x0f }
    pub fn rsv(b: &[u8]) -> u16 { be16(b, 10) }
    /// host address length from a DT/DL (ST/SL) nibble: (L + 1) * 4
    pub fn host_len(nibble: u8) -> usize { ((nibble & 3) as usize + 1) * 4 }
    // address header, starts at byte 12
    pub fn dst_isd(b: &[u8]) -> u16 { be16(b, 12) }
    pub fn dst_as(b: &[u8]) -> u64 { be48(b, 14) }
    pub fn src_isd(b: &[u8]) -> u16 { be16(b, 20) }
    pub fn src_as(b: &[u8]) -> u64 { be48(b, 22) }
    pub const DST_HOST: usize = 28;
    pub fn src_host_off(b: &[u8]) -> usize { 28 + host_len(dt_dl(b)) }
    pub fn path_off(b: &[u8]) -> usize { src_host_off(b) + host_len(st_sl(b)) }
    // standard path meta header (4 bytes at path_off): C(2) CurrHF(6) RSV(6) Seg0(6) Seg1(6) Seg2(6)
    pub fn curr_inf(b: &[u8], p: usize) -> u8 { b[p] >> 6 }
    pub fn curr_hf(b: &[u8], p: usize) -> u8 { b[p] & 0x3f }
    pub fn meta_rsv(b: &[u8], p: usize) -> u8 { b[p + 1] >> 2 }
    pub fn seg_len(b: &[u8], p: usize, i: usize) -> u8 {
        let w = be32(b, p);
        ((w >> (12 - 6 * i)) & 0x3f) as u8
    }
    /// RFC 1071: ones-complement sum of big-endian 16-bit words, odd tail padded with a zero byte.
    pub fn sum16(b: &[u8], mut acc: u32) -> u32 {
        let mut i = 0;
        while i + 1 < b.len() {
            acc += be16(b, i) as u32;
            i += 2;
        }
        if i < b.len() {
            acc += (b[i] as u32) << 8;
        }
        acc
    }
    pub fn fold(mut acc: u32) -> u16 {
        acc = (acc & 0xffff) + (acc >> 16);
        acc = (acc & 0xffff) + (acc >> 16);
        acc as u16
    }
}

// ------------------------------------------------------------------------------------------
// symbolic model builders
// ------------------------------------------------------------------------------------------

fn any_info() -> InfoField {
    InfoField { flags: InfoFieldFlags::from_bits_retain(kani::any()), segment_id: kani::any(), timestamp: kani::any() }
}
fn any_hop() -> HopField {
    HopField {
        flags: HopFieldFlags::from_bits_retain(kani::any()),
        expiration_units: kani::any(),
        cons_ingress: kani::any(),
        cons_egress: kani::any(),
        mac: HopFieldMac(kani::any()),
    }
}
/// V4 / V6 / Svc with symbolic contents (the three address kinds with a fixed type nibble).
fn any_known_host() -> WireHostAddr {
    let k: u8 = kani::any();
    match k % 3 {
        0 => WireHostAddr::V4(Ipv4Addr::from(kani::any::<u32>())),
        1 => WireHostAddr::V6(Ipv6Addr::from(kani::any::<u128>())),
        _ => WireHostAddr::Svc(ServiceAddr(kani::any())),
    }
}
fn any_common() -> CommonHeader {
    CommonHeader { traffic_class: kani::any(), flow_id: kani::any(), next_header: ProtocolNumber::from(kani::any::<u8>()) }
}
fn any_address() -> AddressHeader {
    AddressHeader {
        dst_ia: IsdAsn(kani::any()),
        src_ia: IsdAsn(kani::any()),
        dst_host_addr: any_known_host(),
        src_host_addr: any_known_host(),
    }
}
fn host_bytes(h: &WireHostAddr) -> ([u8; 16], usize) {
    let mut o = [0u8; 16];
    match h {
        WireHostAddr::V4(a) => { o[..4].copy_from_slice(&a.octets()); (o, 4) }
        WireHostAddr::V6(a) => { o = a.octets(); (o, 16) }
        WireHostAddr::Svc(s) => { o[0] = (s.0 >> 8) as u8; o[1] = s.0 as u8; (o, 4) }
        WireHostAddr::Unknown { bytes, .. } => { let n = bytes.len(); let mut i = 0; while i < n { o[i] = bytes[i]; i += 1; } (o, n) }
    }
}
/// type nibble from the SCION specification: IPv4 = 0b0000, IPv6 = 0b0011, SVC = 0b0100
fn spec_nibble(h: &WireHostAddr) -> u8 {
    match h {
        WireHostAddr::V4(_) => 0b0000,
        WireHostAddr::V6(_) => 0b0011,
        WireHostAddr::Svc(_) => 0b0100,
        WireHostAddr::Unknown { id, bytes } => (id << 2) | ((bytes.len() / 4) as u8).wrapping_sub(1),
    }
}

// ------------------------------------------------------------------------------------------
// (5) no silent truncation — length arithmetic only (class P: loop-free, lengths fully symbolic)
// ------------------------------------------------------------------------------------------

/// `vec![0; cap]` (one calloc of concrete size, no initialisation loop) whose length is then set to the
/// symbolic `n <= cap`: only `len()` is consulted by `wire_valid` / `required_size`.
fn zeros_with_len(cap: usize, n: usize) -> Vec<u8> {
    let mut v = vec![0u8; cap];
    assert!(n <= cap);
    // SAFETY: n <= capacity and all `cap` elements are initialised (zero)
    unsafe { v.set_len(n) };
    v
}

fn any_unsupported_path() -> DpPath {
    let m: usize = kani::any();
    kani::assume(m <= 2048);
    DpPath::Unsupported { path_type: PathType::from(kani::any::<u8>()), data: zeros_with_len(2048, m) }
}

/// UDP: payload length symbolic <= 70 000, hosts symbolic, empty path.
#[kani::proof]
#[kani::unwind(4)]
fn c03_no_trunc_udp() {
    let n: usize = kani::any();
    kani::assume(n <= 70_000);
    let pkt = ScionUdpPacket {
        header: ScionPacketHeader { common: any_common(), address: any_address(), path: DpPath::Empty },
        payload: UdpDatagram::new(kani::any(), kani::any(), zeros_with_len(70_000, n)),
    };
    let hs = pkt.header.required_size();
    let ps = pkt.payload.required_size(hs);
    assert!(ps == 8 + n, "C03.trunc: UDP payload size is 8 + data length");
    if pkt.wire_valid().is_ok() {
        assert!(hs <= 1020 && hs % 4 == 0, "C03.trunc: accepted header size fits HdrLen (<= 1020, multiple of 4)");
        assert!(ps <= 65_535, "C03.trunc: accepted UDP datagram fits the 16-bit PayloadLen / UDP Length fields");
        assert!(pkt.required_size() == hs + ps, "C03.trunc: packet size = header + payload");
        kani::cover!(n == 65_527, "largest representable UDP payload accepted");
    }
    kani::cover!(n == 70_000, "70 000-byte payload considered");
    std::mem::forget(pkt);
}

/// Raw payload: payload length symbolic <= 70 000; header with an unsupported path of symbolic length <= 2048
/// (covers the 1020-byte header limit and the multiple-of-4 rule).
#[kani::proof]
#[kani::unwind(4)]
fn c03_no_trunc_raw() {
    let n: usize = kani::any();
    kani::assume(n <= 70_000);
    let pkt = ScionRawPacket {
        header: ScionPacketHeader { common: any_common(), address: any_address(), path: any_unsupported_path() },
        payload: zeros_with_len(70_000, n),
    };
    let hs = pkt.header.required_size();
    let ps = PayloadEncode::required_size(&pkt.payload, hs);
    assert!(ps == n, "C03.trunc: raw payload size is its length");
    if pkt.wire_valid().is_ok() {
        assert!(hs <= 1020 && hs % 4 == 0, "C03.trunc: accepted header size fits HdrLen (<= 1020, multiple of 4)");
        assert!(ps <= 65_535, "C03.trunc: accepted raw payload fits the 16-bit PayloadLen field");
        kani::cover!(n == 65_535, "largest representable raw payload accepted");
        kani::cover!(hs == 1020, "largest header accepted");
    } else {
        kani::cover!(hs > 1020 && n == 0, "oversized header rejected");
        kani::cover!(hs % 4 != 0 && n == 0, "unaligned header rejected");
    }
    kani::cover!(n == 70_000, "70 000-byte payload considered");
    std::mem::forget(pkt);
}

// ------------------------------------------------------------------------------------------
// (1) leaf round trips (class P)
// ------------------------------------------------------------------------------------------

#[kani::proof]
fn c03_leaf_info_hop() {
    // info field
    let m = any_info();
    let before: [u8; 10] = kani::any();
    let mut buf = before;
    assert!(m.wire_valid().is_ok() && m.required_size() == 8, "C03.leaf: info field is 8 bytes");
    let n = unsafe { m.encode_unchecked(&mut buf) };
    assert!(n == 8 && buf[8] == before[8] && buf[9] == before[9], "C03.leaf: info field encode writes exactly 8 bytes");
    assert!(buf[0] == m.flags.bits() && buf[1] == 0 && spec::be16(&buf, 2) == m.segment_id && spec::be32(&buf, 4) == m.timestamp,
        "C03.spec: info field wire format (flags, rsv=0, SegID, Timestamp)");
    let (back, rest) = InfoField::try_from_slice(&buf).unwrap();
    assert!(back == m && rest.len() == 2, "C03.leaf: info field decode(encode(m)) == m");
    // hop field
    let h = any_hop();
    let hbefore: [u8; 14] = kani::any();
    let mut hb = hbefore;
    let n = unsafe { h.encode_unchecked(&mut hb) };
    assert!(n == 12 && h.required_size() == 12 && hb[12] == hbefore[12] && hb[13] == hbefore[13], "C03.leaf: hop field encode writes exactly 12 bytes");
    assert!(hb[0] == h.flags.bits() && hb[1] == h.expiration_units && spec::be16(&hb, 2) == h.cons_ingress && spec::be16(&hb, 4) == h.cons_egress,
        "C03.spec: hop field wire format (flags, ExpTime, ConsIngress, ConsEgress)");
    assert!(hb[6] == h.mac.0[0] && hb[7] == h.mac.0[1] && hb[8] == h.mac.0[2] && hb[9] == h.mac.0[3] && hb[10] == h.mac.0[4] && hb[11] == h.mac.0[5],
        "C03.spec: hop field MAC bytes 6..12");
    let (hback, _) = HopField::try_from_slice(&hb).unwrap();
    assert!(hback.flags == h.flags && hback.expiration_units == h.expiration_units && hback.cons_ingress == h.cons_ingress
        && hback.cons_egress == h.cons_egress && hback.mac.0[0] == h.mac.0[0] && hback.mac.0[5] == h.mac.0[5], "C03.leaf: hop field decode(encode(m)) == m");
    kani::cover!(m.flags.bits() == 0xff && h.flags.bits() == 0xff, "all flag bits set");
}

/// Host address kinds incl. Unknown with 4/8/12/16 bytes. Canonical Unknown: id < 4 and the type nibble is
/// not one of the three assigned ones (0b0000 IPv4, 0b0011 IPv6, 0b0100 SVC) — see `c03_kf_host_alias`.
fn canonical_unknown(id: u8, len: usize) -> bool {
    let nib = (id << 2) | ((len / 4) as u8 - 1);
    id < 4 && nib != 0b0000 && nib != 0b0011 && nib != 0b0100
}

fn any_unknown_host() -> (WireHostAddr, u8, usize) {
    let id: u8 = kani::any();
    let words: usize = kani::any();
    kani::assume(words >= 1 && words <= 4);
    let len = words * 4;
    let raw: [u8; 16] = kani::any();
    let mut bytes: ArrayVec<[u8; 16]> = ArrayVec::new();
    let mut i = 0;
    while i < 16 {
        if i < len {
            bytes.push(raw[i]);
        }
        i += 1;
    }
    (WireHostAddr::Unknown { id, bytes }, id, len)
}

fn check_host_roundtrip(m: &WireHostAddr) {
    let before: [u8; 18] = kani::any();
    let mut buf = before;
    let sz = m.required_size();
    assert!(sz == 4 || sz == 8 || sz == 12 || sz == 16, "C03.leaf: host address size in (4,8,12,16)");
    let n = unsafe { m.encode_unchecked(&mut buf) };
    assert!(n == sz, "C03.leaf: host address encode returns required_size");
    let k: usize = kani::any();
    kani::assume(k < 18);
    if k >= sz {
        assert!(buf[k] == before[k], "C03.leaf: host address encode writes nothing behind required_size");
    }
    let (spec_b, spec_n) = host_bytes(m);
    assert!(spec_n == sz, "C03.spec: host address length");
    if k < sz {
        assert!(buf[k] == spec_b[k], "C03.spec: host address bytes in network order");
    }
    // type nibble -> type -> decode
    let nib: u8 = m.addr_type().into();
    assert!(nib == spec_nibble(m), "C03.spec: host address type nibble");
    let back = WireHostAddr::try_from_parts(WireHostAddrType::from(nib), &buf[..sz]);
    assert!(back.is_ok(), "C03.leaf: host address decodes");
    assert!(back.unwrap() == *m, "C03.leaf: host address decode(encode(m)) == m");
}

#[kani::proof]
#[kani::unwind(18)]
fn c03_leaf_host_addr_known() {
    let m = any_known_host();
    assert!(m.wire_valid().is_ok(), "C03.leaf: known host kinds are always wire valid");
    check_host_roundtrip(&m);
    kani::cover!(matches!(m, WireHostAddr::V6(_)), "v6");
    kani::cover!(matches!(m, WireHostAddr::Svc(_)), "svc");
    kani::cover!(matches!(m, WireHostAddr::V4(_)), "v4");
}

#[kani::proof]
#[kani::unwind(18)]
fn c03_leaf_host_addr_unknown() {
    let (m, id, len) = any_unknown_host();
    kani::assume(canonical_unknown(id, len));
    assert!(m.wire_valid().is_ok(), "C03.leaf: Unknown host with 4/8/12/16 bytes is wire valid");
    check_host_roundtrip(&m);
    kani::cover!(len == 4, "unknown 4");
    kani::cover!(len == 8, "unknown 8");
    kani::cover!(len == 12, "unknown 12");
    kani::cover!(len == 16 && id == 3, "unknown 16");
}

// ------------------------------------------------------------------------------------------
// (2) header: independent spec decoder + crate decoder agree with the model
// ------------------------------------------------------------------------------------------

const HB: usize = 132;

/// Encodes `h` with the crate, then reads it back with the spec reader and with the crate's decoder.
fn check_header_encoding(h: &ScionPacketHeader, payload_size: u16, buf: &mut [u8; HB], before: &[u8; HB]) -> usize {
    let hs = h.required_size();
    let n = h.try_encode(&mut buf[..], payload_size).unwrap();
    assert!(n == hs && hs <= HB, "C03.size: header encode returns required_size");
    let k: usize = kani::any();
    kani::assume(k < HB);
    if k >= hs {
        assert!(buf[k] == before[k], "C03.size: header encode writes nothing behind required_size");
    }
    let b = &buf[..];
    assert!(spec::version(b) == 0, "C03.spec: version 0");
    assert!(spec::traffic_class(b) == h.common.traffic_class, "C03.spec: traffic class");
    assert!(spec::flow_id(b) == h.common.flow_id, "C03.spec: flow id");
    assert!(spec::next_hdr(b) == u8::from(h.common.next_header), "C03.spec: next header");
    assert!(spec::hdr_len_bytes(b) == hs, "C03.len: HdrLen*4 == header size");
    assert!(spec::payload_len(b) == payload_size, "C03.len: PayloadLen field");
    assert!(spec::rsv(b) == 0, "C03.spec: reserved bits zero");
    assert!(spec::dt_dl(b) == spec_nibble(&h.address.dst_host_addr), "C03.spec: DT/DL nibble is the high nibble of byte 9");
    assert!(spec::st_sl(b) == spec_nibble(&h.address.src_host_addr), "C03.spec: ST/SL nibble is the low nibble of byte 9");
    assert!(spec::dst_isd(b) == (h.address.dst_ia.0 >> 48) as u16 && spec::dst_as(b) == h.address.dst_ia.0 & 0xffff_ffff_ffff, "C03.spec: destination ISD-AS at bytes 12..20");
    assert!(spec::src_isd(b) == (h.address.src_ia.0 >> 48) as u16 && spec::src_as(b) == h.address.src_ia.0 & 0xffff_ffff_ffff, "C03.spec: source ISD-AS at bytes 20..28");
    let (db, dn) = host_bytes(&h.address.dst_host_addr);
    let (sb, sn) = host_bytes(&h.address.src_host_addr);
    assert!(spec::host_len(spec::dt_dl(b)) == dn && spec::host_len(spec::st_sl(b)) == sn, "C03.spec: host lengths from DL/SL");
    let j: usize = kani::any();
    kani::assume(j < 16);
    if j < dn {
        assert!(b[spec::DST_HOST + j] == db[j], "C03.spec: destination host bytes at 28..");
    }
    if j < sn {
        assert!(b[spec::src_host_off(b) + j] == sb[j], "C03.spec: source host bytes follow the destination host");
    }
    assert!(spec::path_off(b) == 28 + dn + sn, "C03.spec: path offset");
    hs
}

#[kani::proof]
#[kani::unwind(18)]
fn c03_hdr_spec_empty_onehop() {
    let onehop: bool = kani::any();
    let path = if onehop { DpPath::OneHop(OneHopPath::new_from_parts(any_info(), [any_hop(), any_hop()])) } else { DpPath::Empty };
    let h = ScionPacketHeader { common: any_common(), address: any_address(), path };
    kani::assume(h.wire_valid().is_ok());
    let before: [u8; HB] = kani::any();
    let mut buf = before;
    let ps: u16 = kani::any();
    let hs = check_header_encoding(&h, ps, &mut buf, &before);
    let b = &buf[..];
    let p = spec::path_off(b);
    if onehop {
        assert!(spec::path_type(b) == 2 && hs == p + 32, "C03.spec: one-hop path type 2, 32 bytes");
        if let DpPath::OneHop(o) = &h.path {
            assert!(b[p] == o.info.flags.bits() && b[p + 1] == 0 && spec::be16(b, p + 2) == o.info.segment_id && spec::be32(b, p + 4) == o.info.timestamp, "C03.spec: one-hop info field");
            let w: usize = kani::any();
            kani::assume(w < 2);
            let q = p + 8 + 12 * w;
            let hf = &o.hops[w];
            assert!(b[q] == hf.flags.bits() && b[q + 1] == hf.expiration_units && spec::be16(b, q + 2) == hf.cons_ingress && spec::be16(b, q + 4) == hf.cons_egress
                && b[q + 6] == hf.mac.0[0] && b[q + 11] == hf.mac.0[5], "C03.spec: one-hop hop fields");
        }
    } else {
        assert!(spec::path_type(b) == 0 && hs == p, "C03.spec: empty path type 0, no bytes");
    }
    let (back, rest) = ScionPacketHeader::try_from_slice(&buf[..hs]).unwrap();
    assert!(rest.is_empty(), "C03.rt: header decode consumes the encoding");
    assert!(back.common == h.common, "C03.rt: common header decode(encode(m)) == m");
    assert!(back.address == h.address, "C03.rt: address header decode(encode(m)) == m");
    assert!(back.path == h.path, "C03.rt: path decode(encode(m)) == m");
    kani::cover!(onehop && hs == 92, "one-hop with two v6 hosts");
    kani::cover!(!onehop && hs == 36, "empty path, 4-byte hosts");
    kani::cover!(matches!(h.address.dst_host_addr, WireHostAddr::Svc(_)) && matches!(h.address.src_host_addr, WireHostAddr::V6(_)), "svc dst, v6 src");
}

/// Standard path shapes: <= 2 segments x <= 2 hops, everything else symbolic.
fn any_std_path(max_seg: usize, max_hops: usize) -> StandardPath {
    let nseg: usize = kani::any();
    kani::assume(nseg >= 1 && nseg <= max_seg);
    let mut segments: ArrayVec<[Segment; 3]> = ArrayVec::new();
    let mut s = 0;
    while s < max_seg {
        if s < nseg {
            let nh: usize = kani::any();
            kani::assume(nh >= 1 && nh <= max_hops);
            let mut seg = Segment { info_field: any_info(), hop_fields: Default::default() };
            let mut j = 0;
            while j < max_hops {
                if j < nh {
                    seg.hop_fields.push(any_hop());
                }
                j += 1;
            }
            segments.push(seg);
        }
        s += 1;
    }
    StandardPath { current_info_field: kani::any(), current_hop_field: kani::any(), segments }
}

#[kani::proof]
#[kani::unwind(18)]
fn c03_hdr_spec_standard_2x2() {
    let sp = any_std_path(2, 2);
    let h = ScionPacketHeader { common: any_common(), address: any_address(), path: DpPath::Standard(sp) };
    kani::assume(h.wire_valid().is_ok());
    let before: [u8; HB] = kani::any();
    let mut buf = before;
    let ps: u16 = kani::any();
    let hs = check_header_encoding(&h, ps, &mut buf, &before);
    let b = &buf[..];
    let p = spec::path_off(b);
    let DpPath::Standard(sp) = &h.path else { unreachable!() };
    let nseg = sp.segments.len();
    let l0 = sp.segments[0].hop_fields.len();
    let l1 = if nseg > 1 { sp.segments[1].hop_fields.len() } else { 0 };
    assert!(spec::path_type(b) == 1, "C03.spec: standard path type 1");
    assert!(spec::curr_inf(b, p) == sp.current_info_field && spec::curr_hf(b, p) == sp.current_hop_field, "C03.spec: CurrINF / CurrHF");
    assert!(spec::meta_rsv(b, p) == 0, "C03.spec: path meta reserved bits zero");
    assert!(spec::seg_len(b, p, 0) as usize == l0 && spec::seg_len(b, p, 1) as usize == l1 && spec::seg_len(b, p, 2) == 0, "C03.spec: SegLen fields");
    assert!(hs == p + 4 + 8 * nseg + 12 * (l0 + l1), "C03.len: header size = offset + 4 + 8*infos + 12*hops");
    // one symbolic info field and one symbolic hop field
    let si: usize = kani::any();
    kani::assume(si < nseg);
    let q = p + 4 + 8 * si;
    let inf = &sp.segments[si].info_field;
    assert!(b[q] == inf.flags.bits() && b[q + 1] == 0 && spec::be16(b, q + 2) == inf.segment_id && spec::be32(b, q + 4) == inf.timestamp, "C03.spec: info field i at path+4+8i");
    let hi: usize = kani::any();
    kani::assume(hi < sp.segments[si].hop_fields.len());
    let flat = if si == 0 { hi } else { l0 + hi };
    let q = p + 4 + 8 * nseg + 12 * flat;
    let hf = &sp.segments[si].hop_fields[hi];
    assert!(b[q] == hf.flags.bits() && b[q + 1] == hf.expiration_units && spec::be16(b, q + 2) == hf.cons_ingress && spec::be16(b, q + 4) == hf.cons_egress
        && b[q + 6] == hf.mac.0[0] && b[q + 7] == hf.mac.0[1] && b[q + 8] == hf.mac.0[2] && b[q + 9] == hf.mac.0[3] && b[q + 10] == hf.mac.0[4] && b[q + 11] == hf.mac.0[5],
        "C03.spec: hop field j at path+4+8*infos+12j");
    let (back, rest) = ScionPacketHeader::try_from_slice(&buf[..hs]).unwrap();
    assert!(rest.is_empty(), "C03.rt: standard-path header decode consumes the encoding");
    assert!(back.common == h.common && back.address == h.address, "C03.rt: common/address decode(encode(m)) == m");
    let DpPath::Standard(bp) = &back.path else { panic!("C03.rt: decoded path kind") };
    assert!(bp.current_info_field == sp.current_info_field && bp.current_hop_field == sp.current_hop_field && bp.segments.len() == nseg, "C03.rt: path meta decode(encode(m)) == m");
    assert!(bp.segments[si].info_field == *inf && bp.segments[si].hop_fields.len() == sp.segments[si].hop_fields.len(), "C03.rt: segment decode(encode(m)) == m");
    let bh = &bp.segments[si].hop_fields[hi];
    assert!(bh.flags == hf.flags && bh.expiration_units == hf.expiration_units && bh.cons_ingress == hf.cons_ingress && bh.cons_egress == hf.cons_egress
        && bh.mac.0[0] == hf.mac.0[0] && bh.mac.0[1] == hf.mac.0[1] && bh.mac.0[2] == hf.mac.0[2] && bh.mac.0[3] == hf.mac.0[3] && bh.mac.0[4] == hf.mac.0[4] && bh.mac.0[5] == hf.mac.0[5],
        "C03.rt: hop field decode(encode(m)) == m");
    kani::cover!(nseg == 2 && l0 == 2 && l1 == 2, "2 segments x 2 hops");
    kani::cover!(nseg == 1 && l0 == 1, "1 segment x 1 hop");
    kani::cover!(si == 1 && hi == 1, "last hop field of the second segment");
}

// ------------------------------------------------------------------------------------------
// (3) whole packets: lengths, UDP length, checksum over the pseudo header
// ------------------------------------------------------------------------------------------

const MAXPL: usize = 8;

/// pseudo header sum per SCION spec: DstISD-AS | SrcISD-AS | DstHost | SrcHost | upper-layer length (32) |
/// zero (24) | next header (8)
fn spec_pseudo_sum(b: &[u8], upper_len: usize, proto: u8) -> u32 {
    let end = spec::path_off(b);
    let mut acc = spec::sum16(&b[12..end], 0);
    acc += (upper_len >> 16) as u32 + (upper_len & 0xffff) as u32;
    acc += proto as u32;
    acc
}

#[kani::proof]
#[kani::unwind(18)]
fn c03_udp_packet_empty_path() {
    let n: usize = kani::any();
    kani::assume(n <= MAXPL);
    let data: [u8; MAXPL] = kani::any();
    let mut common = any_common();
    common.next_header = ProtocolNumber::Udp;
    let pkt = ScionUdpPacket {
        header: ScionPacketHeader { common, address: any_address(), path: DpPath::Empty },
        payload: UdpDatagram::new(kani::any(), kani::any(), data[..n].to_vec()),
    };
    kani::assume(pkt.wire_valid().is_ok());
    let out = pkt.try_encode_to_vec().unwrap();
    let hs = pkt.header.required_size();
    assert!(out.len() == pkt.required_size() && out.len() == hs + 8 + n, "C03.size: packet encodes to exactly required_size bytes");
    let b = &out[..];
    assert!(spec::hdr_len_bytes(b) == hs && hs == spec::path_off(b), "C03.len: HdrLen*4 == header size");
    assert!(spec::payload_len(b) as usize == 8 + n, "C03.len: PayloadLen == payload size");
    assert!(spec::next_hdr(b) == 17, "C03.spec: next header UDP");
    let u = &b[hs..];
    assert!(spec::be16(u, 0) == pkt.payload.src_port && spec::be16(u, 2) == pkt.payload.dst_port, "C03.spec: UDP ports");
    assert!(spec::be16(u, 4) as usize == 8 + n, "C03.len: UDP length == 8 + data length");
    let k: usize = kani::any();
    kani::assume(k < MAXPL);
    if k < n {
        assert!(u[8 + k] == data[k], "C03.spec: UDP data bytes");
    }
    // checksum verifies: ones-complement sum of pseudo header and datagram is 0xffff
    let total = spec::fold(spec::sum16(u, spec_pseudo_sum(b, 8 + n, 17)));
    assert!(total == 0xffff, "C03.cksum: UDP checksum verifies over the SCION pseudo header");
    kani::cover!(n == MAXPL, "8-byte payload");
    kani::cover!(n == 3, "odd payload length");
    kani::cover!(n == 0, "empty payload");
    kani::cover!(hs == 60, "two v6 hosts");
}
