// Contract module for property C02, obligations (1)-(3) for the SCION header view and the path
// views (standard path, info/hop field, one-hop path, ScionDpPathViewRef/Mut).
// Included from crates/libs/sciparse/src/proto/header/view.rs by
//   #[cfg(kani)] #[path = "/verif/kani/sciparse/c02_header_view.rs"] mod verif_c02_header_view;
//
// Representation invariant of a view V over bytes b:   Inv_V(b) := V::has_required_size(b) == Ok(b.len())
//
// (1) constructor contract      forall buf, len <= N:  try_from_{slice,mut_slice}(buf[..len]) does not panic;
//                               Ok((v,rest)) ==> v starts at buf[0], v.len + rest.len == len, rest follows v,
//                               Inv_V(v.as_slice())
// (2) accessor contract         requires Inv_V(v): no panic, no invalid pointer use (CBMC pointer checks),
//                               every returned sub-slice / sub-view lies inside v.as_slice() (address arithmetic)
// (3) mutator contract          requires Inv_V(v): after every safe setter with arbitrary arguments and after
//                               writing arbitrary bytes through every returned `&mut` sub-view, Inv_V(v) holds
//                               again with the same length.
// Sequences of accessor / mutator calls of any length follow by induction: (2) needs only Inv, (3) re-establishes it.
//
// The buffer is a fully symbolic byte array of N bytes with symbolic length (all truncation points).
// Bounded stand-in (class B): N is stated per harness.
//
// Recorded observation (not a memory-safety defect): `ScionHeaderView::set_version` is a safe setter, and a
// non-zero version makes `has_required_size` return Err(UnsupportedVersion). No accessor's bounds depend on
// the version nibble, so the mutator contract is stated for Inv modulo the version nibble (`inv_header`).
#![allow(dead_code, unused_imports)]

use super::*;
use crate::{
    core::view::View,
    dataplane_path::{
        onehop::view::OneHopPathView,
        standard::{
            types::{HopFieldFlags, HopFieldMac, InfoFieldFlags},
            view::{HopFieldView, InfoFieldView, StandardPathView},
        },
        view::{ScionDpPathViewExt, ScionDpPathViewExtMut},
    },
};

const N: usize = 128; // quick bound: header with 2 segments x 2 hops and v4/v4 (104 B), 1x3 with v6/v6, ...
const NP: usize = 100; // stand-alone standard path: 4 + 3*8 + 6*12

/// `inner` (ptr,len) lies inside `outer`. `offset_from` additionally makes CBMC check that both
/// pointers belong to the same allocation.
fn inside(outer: &[u8], p: *const u8, len: usize) -> bool {
    let off = unsafe { p.offset_from(outer.as_ptr()) };
    off >= 0 && (off as usize) + len <= outer.len()
}

fn inv_header_strict(b: &[u8]) -> bool {
    ScionHeaderView::has_required_size(b) == Ok(b.len())
}

// ------------------------------------------------------------------------------------------
// (1) constructors
// ------------------------------------------------------------------------------------------

#[kani::proof]
fn c02_hdr_ctor_slice() {
    let buf: [u8; N] = kani::any();
    let len: usize = kani::any();
    kani::assume(len <= N);
    let b = &buf[..len];
    match ScionHeaderView::try_from_slice(b) {
        Ok((v, rest)) => {
            let vs = v.as_slice();
            assert!(vs.as_ptr() == b.as_ptr(), "C02.ctor: view starts at buf[0]");
            assert!(vs.len() + rest.len() == len, "C02.ctor: view and rest partition the input");
            assert!(rest.as_ptr() == unsafe { b.as_ptr().add(vs.len()) }, "C02.ctor: rest follows the view");
            assert!(inv_header_strict(vs), "C02.ctor: Inv holds on the constructed view");
            assert!(vs.len() == v.header_len() as usize && vs.len() % 4 == 0 && vs.len() >= 36, "C02.ctor: view length is HdrLen*4");
            kani::cover!(v.path_type() == PathType::Scion && vs.len() == 104, "standard path 2x2");
            kani::cover!(v.path_type() == PathType::OneHop, "one-hop path");
            kani::cover!(v.path_type() == PathType::Empty && rest.len() > 0, "empty path with trailing bytes");
            kani::cover!(matches!(v.path_type(), PathType::Other(_)) && vs.len() > 36, "unknown path type with data");
            kani::cover!(v.src_addr_type().size() == 16 && v.dst_addr_type().size() == 12, "v6 src, unknown 12-byte dst");
        }
        Err(e) => {
            kani::cover!(matches!(e, ViewConversionError::BufferTooSmall { .. }) && len >= 36, "truncated header");
            kani::cover!(matches!(e, ViewConversionError::Other(_)), "version / header length mismatch");
        }
    }
}

#[kani::proof]
fn c02_hdr_ctor_mut_slice() {
    let mut buf: [u8; N] = kani::any();
    let len: usize = kani::any();
    kani::assume(len <= N);
    let base = buf.as_ptr();
    match ScionHeaderView::try_from_mut_slice(&mut buf[..len]) {
        Ok((v, rest)) => {
            let vs = v.as_slice();
            assert!(vs.as_ptr() == base, "C02.ctor: mut view starts at buf[0]");
            assert!(vs.len() + rest.len() == len, "C02.ctor: mut view and rest partition the input");
            assert!(rest.as_ptr() == unsafe { base.add(vs.len()) }, "C02.ctor: mut rest follows the view");
            assert!(inv_header_strict(vs), "C02.ctor: Inv holds on the constructed mut view");
            kani::cover!(rest.len() == 3, "ok with three trailing bytes");
        }
        Err(_) => {
            kani::cover!(len == N, "full buffer rejected");
        }
    }
}

const NB: usize = 64;
#[kani::proof]
fn c02_hdr_ctor_boxed() {
    let buf: [u8; NB] = kani::any();
    let len: usize = kani::any();
    kani::assume(len <= NB);
    let boxed: Box<[u8]> = buf[..len].to_vec().into_boxed_slice();
    match ScionHeaderView::try_from_boxed(boxed) {
        Ok(v) => {
            assert!(v.as_slice().len() == len, "C02.ctor: boxed view owns exactly the input");
            assert!(inv_header_strict(v.as_slice()), "C02.ctor: Inv holds on the boxed view");
            let back = v.as_slice_boxed();
            assert!(back.len() == len, "C02.ctor: as_slice_boxed returns the whole buffer");
            kani::cover!(len == 60, "boxed standard path 1x1");
        }
        Err(_) => {
            kani::cover!(ScionHeaderView::has_required_size(&buf[..len]).is_ok(), "boxed: trailing bytes rejected");
        }
    }
}

// ------------------------------------------------------------------------------------------
// (2) header accessors
// ------------------------------------------------------------------------------------------

#[kani::proof]
#[kani::unwind(17)]
fn c02_hdr_accessors_common_addr() {
    let buf: [u8; N] = kani::any();
    let len: usize = kani::any();
    kani::assume(len <= N);
    let Ok((v, _)) = ScionHeaderView::try_from_slice(&buf[..len]) else { return };
    let vs = v.as_slice();
    // common header
    assert!(v.version() == 0, "C02.acc: constructed view has version 0");
    let _ = v.traffic_class();
    assert!(v.flow_id() < (1 << 20), "C02.acc: flow id is 20 bits");
    let _ = v.next_header();
    let _ = v.payload_len();
    assert!(v.header_len() as usize == vs.len(), "C02.acc: header_len is the view length");
    let _ = v.path_type();
    let _ = v.path_type_range();
    let st = v.src_addr_type();
    let dt = v.dst_addr_type();
    // address header
    let _ = (v.dst_ia(), v.dst_isd(), v.dst_as(), v.src_ia(), v.src_isd(), v.src_as());
    let r = v.src_host_addr_range();
    assert!(r.end % 8 == 0 && r.end / 8 <= vs.len(), "C02.acc: src host range inside the view");
    assert!(r.end / 8 == 28 + dt.size() as usize + st.size() as usize, "C02.acc: src host range ends the address header");
    let d = v.dst_host_addr();
    let s = v.src_host_addr();
    // the nibble decides the length, so a size mismatch can never be reported
    assert!(d.is_ok() && s.is_ok(), "C02.acc: host address length always matches its type nibble");
    kani::cover!(matches!(d, Ok(WireHostAddr::Unknown { .. })), "unknown destination address type");
    kani::cover!(matches!(s, Ok(WireHostAddr::V6(_))), "v6 source");
    kani::cover!(matches!(s, Ok(WireHostAddr::Svc(_))), "svc source");
}

#[kani::proof]
fn c02_hdr_path_subview_inside() {
    let buf: [u8; N] = kani::any();
    let len: usize = kani::any();
    kani::assume(len <= N);
    let Ok((v, _)) = ScionHeaderView::try_from_slice(&buf[..len]) else { return };
    let vs = v.as_slice();
    let off = 28 + v.dst_addr_type().size() as usize + v.src_addr_type().size() as usize;
    match v.path() {
        ScionDpPathViewRef::Standard(p) => {
            let ps = p.as_slice();
            assert!(inside(vs, ps.as_ptr(), ps.len()), "C02.acc: standard path sub-view inside the header");
            assert!(ps.as_ptr() == unsafe { vs.as_ptr().add(off) } && off + ps.len() == vs.len(), "C02.acc: standard path is the header tail");
            assert!(StandardPathView::has_required_size(ps) == Ok(ps.len()), "C02.acc: Inv of the standard path sub-view");
            kani::cover!(p.hop_field_count() == 5 && p.info_field_count() == 2, "2 segments, 5 hops");
        }
        ScionDpPathViewRef::OneHop(p) => {
            let ps = p.as_slice();
            assert!(inside(vs, ps.as_ptr(), ps.len()) && ps.len() == 32, "C02.acc: one-hop sub-view inside the header");
            assert!(ps.as_ptr() == unsafe { vs.as_ptr().add(off) } && off + 32 == vs.len(), "C02.acc: one-hop path is the header tail");
            kani::cover!(true, "one-hop");
        }
        ScionDpPathViewRef::Unsupported { path_type, data } => {
            assert!(inside(vs, data.as_ptr(), data.len()), "C02.acc: unsupported path data inside the header");
            assert!(off + data.len() == vs.len(), "C02.acc: unsupported path data is the header tail");
            assert!(!matches!(path_type, PathType::Empty | PathType::Scion | PathType::OneHop), "C02.acc: path type tag");
            kani::cover!(data.len() == 8, "unknown path with 8 data bytes");
            kani::cover!(data.is_empty(), "unknown path without data");
        }
        ScionDpPathViewRef::Empty => {
            assert!(off == vs.len(), "C02.acc: empty path ends the header");
            kani::cover!(true, "empty");
        }
    }
    let path = v.path();
    let s = path.as_slice();
    assert!(s.is_empty() || inside(vs, s.as_ptr(), s.len()), "C02.acc: ScionDpPathViewRef::as_slice inside the header");
    let _ = path.first_egress_interface();
    let _ = path.current_egress_interface();
    let _ = path.current_ingress_interface();
    let _ = path.last_ingress_interface();
}

// ------------------------------------------------------------------------------------------
// (3) header mutators preserve Inv
// ------------------------------------------------------------------------------------------

#[kani::proof]
fn c02_hdr_mutators_preserve_inv() {
    let mut buf: [u8; N] = kani::any();
    let len: usize = kani::any();
    kani::assume(len <= N);
    let vlen;
    {
        let Ok((v, _)) = ScionHeaderView::try_from_mut_slice(&mut buf[..len]) else { return };
        vlen = v.as_slice().len();
        v.set_traffic_class(kani::any());
        v.set_flow_id(kani::any());
        v.set_next_header(ProtocolNumber::from(kani::any::<u8>()));
        v.set_src_isd(Isd(kani::any()));
        v.set_src_as(Asn(kani::any()));
        v.set_dst_isd(Isd(kani::any()));
        v.set_dst_as(Asn(kani::any()));
        if kani::any() {
            v.set_version(0);
        }
    }
    assert!(inv_header_strict(&buf[..vlen]), "C02.mut: header setters preserve Inv");
    {
        let (v, _) = ScionHeaderView::try_from_mut_slice(&mut buf[..len]).unwrap();
        v.set_version(kani::any());
    }
    kani::cover!(buf[0] >> 4 == 7, "non-zero version written");
    buf[0] &= 0x0f;
    assert!(inv_header_strict(&buf[..vlen]), "C02.mut: set_version changes only the version nibble");
    kani::cover!(vlen == 104, "standard path 2x2");
}

#[kani::proof]
fn c02_hdr_path_mut_preserves_inv() {
    let mut buf: [u8; N] = kani::any();
    let len: usize = kani::any();
    kani::assume(len <= N);
    let vlen;
    {
        let Ok((v, _)) = ScionHeaderView::try_from_mut_slice(&mut buf[..len]) else { return };
        vlen = v.as_slice().len();
        let base = v.as_slice().as_ptr();
        match v.path_mut() {
            ScionDpPathViewRefMut::Standard(p) => {
                let ps = p.as_slice();
                let off = unsafe { ps.as_ptr().offset_from(base) };
                assert!(off >= 36 && off as usize + ps.len() == vlen, "C02.mut: mutable standard path is the header tail");
                p.set_curr_info_field(kani::any());
                p.set_curr_hop_field(kani::any());
                let i: usize = kani::any();
                if let Some(f) = p.info_field_mut(i) {
                    f.set_flags(InfoFieldFlags::from_bits_retain(kani::any()));
                    f.set_segment_id(kani::any());
                    f.set_timestamp(kani::any());
                    kani::cover!(i == 1, "second info field written");
                }
                if let Some(h) = p.hop_field_mut(i) {
                    h.set_flags(HopFieldFlags::from_bits_retain(kani::any()));
                    h.set_exp_time(kani::any());
                    h.set_cons_ingress(kani::any());
                    h.set_cons_egress(kani::any());
                    h.set_mac(HopFieldMac(kani::any()));
                    kani::cover!(i == 3, "fourth hop field written");
                }
            }
            ScionDpPathViewRefMut::OneHop(p) => {
                let f = p.info_field_mut();
                f.set_flags(InfoFieldFlags::from_bits_retain(kani::any()));
                f.set_segment_id(kani::any());
                f.set_timestamp(kani::any());
                let [h1, h2] = p.mut_hop_fields();
                h1.set_cons_egress(kani::any());
                h1.set_mac(HopFieldMac(kani::any()));
                h2.set_cons_ingress(kani::any());
                h2.set_exp_time(kani::any());
                kani::cover!(true, "one-hop path written");
            }
            ScionDpPathViewRefMut::Unsupported { buf: pb, .. } => {
                let off = unsafe { pb.as_ptr().offset_from(base) };
                assert!(off >= 36 && off as usize + pb.len() == vlen, "C02.mut: mutable unsupported path data is the header tail");
                let k: usize = kani::any();
                if k < pb.len() {
                    pb[k] = kani::any();
                    kani::cover!(k == 7, "unsupported path byte written");
                }
            }
            ScionDpPathViewRefMut::Empty => {}
        }
    }
    assert!(inv_header_strict(&buf[..vlen]), "C02.mut: writes through path_mut preserve the header Inv");
}

// ------------------------------------------------------------------------------------------
// standard path view on its own buffer: (1) (2) (3)
// ------------------------------------------------------------------------------------------

fn inv_path(b: &[u8]) -> bool {
    StandardPathView::has_required_size(b) == Ok(b.len())
}

#[kani::proof]
fn c02_stdpath_ctor() {
    let buf: [u8; NP] = kani::any();
    let len: usize = kani::any();
    kani::assume(len <= NP);
    let b = &buf[..len];
    match StandardPathView::try_from_slice(b) {
        Ok((v, rest)) => {
            let vs = v.as_slice();
            assert!(vs.as_ptr() == b.as_ptr() && vs.len() + rest.len() == len, "C02.ctor: standard path view is a prefix of the input");
            assert!(rest.as_ptr() == unsafe { b.as_ptr().add(vs.len()) }, "C02.ctor: standard path rest follows the view");
            assert!(inv_path(vs), "C02.ctor: Inv holds on the standard path view");
            // wire format: 4 + 8*infos + 12*hops
            let (a, b2, c) = (v.seg0_len() as usize, v.seg1_len() as usize, v.seg2_len() as usize);
            let ni = (a > 0) as usize + (b2 > 0) as usize + (c > 0) as usize;
            assert!(vs.len() == 4 + 8 * ni + 12 * (a + b2 + c), "C02.ctor: standard path length = 4 + 8*infos + 12*hops");
            kani::cover!(a == 2 && b2 == 0 && c == 3, "gap in the segment lengths");
            kani::cover!(a + b2 + c == 6 && ni == 3 && rest.is_empty(), "3 segments, 6 hops, exact fit");
            kani::cover!(ni == 0 && vs.len() == 4, "no segments");
        }
        Err(_) => {
            kani::cover!(len >= 4, "declared hops do not fit");
            kani::cover!(len < 4, "no meta header");
        }
    }
}

#[kani::proof]
fn c02_stdpath_accessors_inside() {
    let buf: [u8; NP] = kani::any();
    let len: usize = kani::any();
    kani::assume(len <= NP);
    let Ok((v, _)) = StandardPathView::try_from_slice(&buf[..len]) else { return };
    let vs = v.as_slice();
    let ni = v.info_field_count() as usize;
    let nh = v.hop_field_count() as usize;
    let _ = (v.curr_info_field_idx(), v.curr_hop_field_idx());

    let infos = v.info_fields();
    let hops = v.hop_fields();
    assert!(infos.len() == ni && hops.len() == nh, "C02.acc: slice accessors have the declared field counts");
    assert!(inside(vs, infos.as_ptr() as *const u8, 8 * ni), "C02.acc: info_fields() inside the view");
    assert!(inside(vs, hops.as_ptr() as *const u8, 12 * nh), "C02.acc: hop_fields() inside the view");
    assert!(infos.as_ptr() as *const u8 == unsafe { vs.as_ptr().add(4) }, "C02.acc: info fields follow the meta header");
    assert!(hops.as_ptr() as *const u8 == unsafe { vs.as_ptr().add(4 + 8 * ni) }, "C02.acc: hop fields follow the info fields");

    let i: usize = kani::any();
    match v.info_field(i) {
        Some(f) => {
            assert!(i < ni, "C02.acc: info_field(i) is Some only for i < count");
            assert!(f.as_slice().as_ptr() == unsafe { vs.as_ptr().add(4 + 8 * i) }, "C02.acc: info_field(i) at 4+8i");
            assert!(inside(vs, f.as_slice().as_ptr(), 8), "C02.acc: info_field(i) inside the view");
            let _ = (f.flags(), f.segment_id(), f.timestamp());
            kani::cover!(i == 2, "third info field");
        }
        None => assert!(i >= ni, "C02.acc: info_field(i) is None only for i >= count"),
    }
    match v.hop_field(i) {
        Some(h) => {
            assert!(i < nh, "C02.acc: hop_field(i) is Some only for i < count");
            assert!(h.as_slice().as_ptr() == unsafe { vs.as_ptr().add(4 + 8 * ni + 12 * i) }, "C02.acc: hop_field(i) at 4+8*infos+12i");
            assert!(inside(vs, h.as_slice().as_ptr(), 12), "C02.acc: hop_field(i) inside the view");
            let _ = (h.flags(), h.exp_time(), h.cons_ingress(), h.cons_egress(), h.mac());
            if let Some(f) = v.info_fields().first() {
                let _ = (h.ingress_interface(f), h.egress_interface(f), h.ingress_scmp_alert(f), h.egress_scmp_alert(f));
            }
            kani::cover!(i == 5, "sixth hop field");
        }
        None => assert!(i >= nh, "C02.acc: hop_field(i) is None only for i >= count"),
    }
    match v.checked_hop_field_range(i) {
        Some(r) => assert!(i < nh && r.end <= vs.len() && r.end - r.start == 12, "C02.acc: checked_hop_field_range inside the view"),
        None => assert!(i >= nh, "C02.acc: checked_hop_field_range None only out of bounds"),
    }
    if let Some(f) = v.curr_info_field() {
        assert!(inside(vs, f.as_slice().as_ptr(), 8), "C02.acc: curr_info_field inside the view");
    }
    if let Some(h) = v.curr_hop_field() {
        assert!(inside(vs, h.as_slice().as_ptr(), 12), "C02.acc: curr_hop_field inside the view");
    }
    let _ = v.curr_egress_interface();
    let _ = v.calculate_segment_index(i);
}

/// segments() iterator: every yielded info field / hop slice lies inside the view; at most 3 items.
#[kani::proof]
#[kani::unwind(5)]
fn c02_stdpath_segments_inside() {
    let buf: [u8; NP] = kani::any();
    let len: usize = kani::any();
    kani::assume(len <= NP);
    let Ok((v, _)) = StandardPathView::try_from_slice(&buf[..len]) else { return };
    let vs = v.as_slice();
    let mut it = v.segments();
    let total = it.hop_field_count();
    assert!(it.segment_count() <= 3 && total == v.hop_field_count() as usize, "C02.acc: segment iterator counts");
    let mut seen = 0usize;
    let mut n = 0usize;
    while let Some((info, hops)) = it.next() {
        assert!(inside(vs, info.as_slice().as_ptr(), 8), "C02.acc: segment info field inside the view");
        assert!(inside(vs, hops.as_ptr() as *const u8, 12 * hops.len()), "C02.acc: segment hop slice inside the view");
        assert!(!hops.is_empty(), "C02.acc: every yielded segment has a hop field");
        seen += hops.len();
        n += 1;
    }
    assert!(n <= 3 && seen <= total, "C02.acc: segment iterator yields at most 3 segments and no more hops than present");
    kani::cover!(n == 3, "three segments");
    kani::cover!(n == 1 && seen < total, "gap: later segments are not yielded");
}

#[kani::proof]
fn c02_stdpath_mutators_preserve_inv() {
    let mut buf: [u8; NP] = kani::any();
    let len: usize = kani::any();
    kani::assume(len <= NP);
    let vlen;
    {
        let Ok((v, _)) = StandardPathView::try_from_mut_slice(&mut buf[..len]) else { return };
        vlen = v.as_slice().len();
        let base = v.as_slice().as_ptr();
        v.set_curr_info_field(kani::any());
        v.set_curr_hop_field(kani::any());
        let i: usize = kani::any();
        let which: u8 = kani::any();
        match which {
            0 => {
                if let Some(f) = v.curr_info_field_mut() {
                    unsafe { f.as_slice_mut()[kani::any::<usize>() % 8] = kani::any() };
                    kani::cover!(true, "curr_info_field_mut written");
                }
            }
            1 => {
                if let Some(h) = v.curr_hop_field_mut() {
                    unsafe { h.as_slice_mut()[kani::any::<usize>() % 12] = kani::any() };
                    kani::cover!(true, "curr_hop_field_mut written");
                }
            }
            2 => {
                let s = v.info_fields_mut();
                let off = unsafe { (s.as_ptr() as *const u8).offset_from(base) };
                assert!(off == 4 && 4 + 8 * s.len() <= vlen, "C02.mut: info_fields_mut inside the view");
                if i < s.len() {
                    s[i].set_flags(InfoFieldFlags::from_bits_retain(kani::any()));
                    s[i].set_segment_id(kani::any());
                    s[i].set_timestamp(kani::any());
                    kani::cover!(i == 2, "third info field written through the slice");
                }
            }
            _ => {
                let s = v.hop_fields_mut();
                let off = unsafe { (s.as_ptr() as *const u8).offset_from(base) };
                assert!(off >= 4 && off as usize + 12 * s.len() == vlen, "C02.mut: hop_fields_mut is the view tail");
                if i < s.len() {
                    s[i].set_flags(HopFieldFlags::from_bits_retain(kani::any()));
                    s[i].set_exp_time(kani::any());
                    s[i].set_cons_ingress(kani::any());
                    s[i].set_cons_egress(kani::any());
                    s[i].set_mac(HopFieldMac(kani::any()));
                    kani::cover!(i == 5, "sixth hop field written through the slice");
                }
            }
        }
    }
    assert!(inv_path(&buf[..vlen]), "C02.mut: standard path setters and field writes preserve Inv");
}

// ------------------------------------------------------------------------------------------
// info field / hop field / one-hop views: fixed size, every byte symbolic => class P
// ------------------------------------------------------------------------------------------

#[kani::proof]
fn c02_info_hop_field_views() {
    let mut ib: [u8; 10] = kani::any();
    let ilen: usize = kani::any();
    kani::assume(ilen <= 10);
    let base = ib.as_ptr();
    match InfoFieldView::try_from_mut_slice(&mut ib[..ilen]) {
        Ok((f, rest)) => {
            assert!(ilen >= 8 && f.as_slice().len() == 8 && rest.len() == ilen - 8 && f.as_slice().as_ptr() == base, "C02.ctor: info field view is the first 8 bytes");
            let fl: u8 = kani::any();
            let sid: u16 = kani::any();
            let ts: u32 = kani::any();
            f.set_flags(InfoFieldFlags::from_bits_retain(fl));
            f.set_segment_id(sid);
            f.set_timestamp(ts);
            assert!(f.flags().bits() == fl && f.segment_id() == sid && f.timestamp() == ts, "C02.acc: info field setters/getters agree");
            kani::cover!(ilen == 10, "info field with trailing bytes");
        }
        Err(_) => assert!(ilen < 8, "C02.ctor: info field rejected only when shorter than 8"),
    }
    let mut hb: [u8; 14] = kani::any();
    let hlen: usize = kani::any();
    kani::assume(hlen <= 14);
    let hbase = hb.as_ptr();
    match HopFieldView::try_from_mut_slice(&mut hb[..hlen]) {
        Ok((h, rest)) => {
            assert!(hlen >= 12 && h.as_slice().len() == 12 && rest.len() == hlen - 12 && h.as_slice().as_ptr() == hbase, "C02.ctor: hop field view is the first 12 bytes");
            let (fl, e, ci, ce): (u8, u8, u16, u16) = kani::any();
            let mac: [u8; 6] = kani::any();
            h.set_flags(HopFieldFlags::from_bits_retain(fl));
            h.set_exp_time(e);
            h.set_cons_ingress(ci);
            h.set_cons_egress(ce);
            h.set_mac(HopFieldMac(mac));
            let m = h.mac().0;
            assert!(h.flags().bits() == fl && h.exp_time() == e && h.cons_ingress() == ci && h.cons_egress() == ce, "C02.acc: hop field setters/getters agree");
            assert!(m[0] == mac[0] && m[1] == mac[1] && m[2] == mac[2] && m[3] == mac[3] && m[4] == mac[4] && m[5] == mac[5], "C02.acc: hop field mac round trip");
            kani::cover!(hlen == 12, "exact hop field");
        }
        Err(_) => assert!(hlen < 12, "C02.ctor: hop field rejected only when shorter than 12"),
    }
}

#[kani::proof]
fn c02_onehop_view() {
    let mut buf: [u8; 36] = kani::any();
    let len: usize = kani::any();
    kani::assume(len <= 36);
    let base = buf.as_ptr();
    match OneHopPathView::try_from_mut_slice(&mut buf[..len]) {
        Ok((v, rest)) => {
            assert!(len >= 32 && v.as_slice().len() == 32 && rest.len() == len - 32 && v.as_slice().as_ptr() == base, "C02.ctor: one-hop view is the first 32 bytes");
            let vs_ptr = v.as_slice().as_ptr();
            let info = v.info_field();
            assert!(info.as_slice().as_ptr() == vs_ptr, "C02.acc: one-hop info field at 0");
            let [h1, h2] = v.hop_fields();
            assert!(h1.as_slice().as_ptr() == unsafe { vs_ptr.add(8) } && h2.as_slice().as_ptr() == unsafe { vs_ptr.add(20) }, "C02.acc: one-hop hop fields at 8 and 20");
            let _ = (h1.ingress_interface(info), h2.egress_interface(info));
            {
                let [m1, m2] = v.mut_hop_fields();
                assert!(m1.as_slice().as_ptr() == unsafe { vs_ptr.add(8) } && m2.as_slice().as_ptr() == unsafe { vs_ptr.add(20) }, "C02.acc: one-hop mutable hop fields at 8 and 20");
                m1.set_mac(HopFieldMac(kani::any()));
                m2.set_cons_egress(kani::any());
            }
            v.info_field_mut().set_timestamp(kani::any());
            let r = v.try_reverse();
            kani::cover!(r.is_ok(), "one-hop reversed");
            kani::cover!(r.is_err(), "one-hop not reversible");
            assert!(OneHopPathView::has_required_size(v.as_slice()) == Ok(32), "C02.mut: one-hop mutators preserve Inv");
        }
        Err(_) => assert!(len < 32, "C02.ctor: one-hop rejected only when shorter than 32"),
    }
}
