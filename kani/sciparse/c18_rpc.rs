// Contract module for crates/libs/sciparse/src/scion/segment/rpc.rs (property C18, clause 1).
// Child module of `segment::rpc`.
//
// For each leaf conversion T in {SegmentHopField, HopEntry, PeerEntry, SegmentInfo}:
//   C18.rpc-total    try_from_rpc(m) returns (no panic) for EVERY message m (Kani's panic checks)
//   C18.rpc-range    try_from_rpc(m) is Ok  <=>  every field of m is in the range of its target
//                    (out-of-range => Err: no silent narrowing; missing sub-message => Err)
//   C18.rpc-inverse  try_from_rpc(m) == Ok(x)  =>  into_rpc(x) == m
//   C18.rpc-round    try_from_rpc(into_rpc(x)) == Ok(x) for every value x
// Domains: full u32/u64/i64 for the scalar fields; MAC Vec length symbolic 0..=8 with symbolic
// bytes (the conversion only tests `len() != 6`, so lengths > 8 behave like 7/8).
#![allow(dead_code, unused_imports)]

use super::*;
use scion_protobuf::control_plane::v1 as pb;

fn any_mac_vec() -> (Vec<u8>, [u8; 8], usize) {
    let n: usize = kani::any();
    kani::assume(n <= 8);
    let bytes: [u8; 8] = kani::any();
    (bytes[..n].to_vec(), bytes, n)
}

fn any_pb_hop_field() -> (pb::HopField, [u8; 8], usize) {
    let (mac, bytes, n) = any_mac_vec();
    (pb::HopField { exp_time: kani::any(), ingress: kani::any(), egress: kani::any(), mac }, bytes, n)
}

fn any_seg_hop_field() -> SegmentHopField {
    SegmentHopField {
        expiration_units: kani::any(),
        cons_ingress: kani::any(),
        cons_egress: kani::any(),
        mac: HopFieldMac(kani::any()),
    }
}

fn hf_in_range(exp: u32, ing: u64, eg: u64, n: usize) -> bool {
    n == 6 && exp <= u8::MAX as u32 && ing <= u16::MAX as u64 && eg <= u16::MAX as u64
}

fn mac_eq(v: &[u8], bytes: &[u8; 8], n: usize) -> bool {
    if v.len() != n {
        return false;
    }
    let mut i = 0;
    while i < 8 {
        if i < n && v[i] != bytes[i] {
            return false;
        }
        i += 1;
    }
    true
}

/// into_rpc(x) == m, field by field (m given by its recorded parts).
fn pb_hf_matches(back: &pb::HopField, exp: u32, ing: u64, eg: u64, bytes: &[u8; 8], n: usize) -> bool {
    back.exp_time == exp && back.ingress == ing && back.egress == eg && mac_eq(&back.mac, bytes, n)
}

fn seg_hf_eq(a: &SegmentHopField, b: &SegmentHopField) -> bool {
    let mut same = a.expiration_units == b.expiration_units && a.cons_ingress == b.cons_ingress && a.cons_egress == b.cons_egress;
    let mut i = 0;
    while i < 6 {
        same &= a.mac.0[i] == b.mac.0[i];
        i += 1;
    }
    same
}

// ---- SegmentHopField ----------------------------------------------------------------------------

#[kani::proof]
#[kani::unwind(10)]
fn c18_hop_field_from_rpc() {
    let (m, bytes, n) = any_pb_hop_field();
    let (exp, ing, eg) = (m.exp_time, m.ingress, m.egress);
    let r = SegmentHopField::try_from_rpc(m);
    assert!(r.is_ok() == hf_in_range(exp, ing, eg, n), "C18.rpc-range: HopField accepted iff MAC has 6 bytes and exp/ingress/egress fit u8/u16/u16");
    kani::cover!(r.is_ok(), "Ok");
    kani::cover!(r.is_err() && n == 6, "Err: value out of range");
    kani::cover!(r.is_err() && n != 6, "Err: MAC length");
    if let Ok(x) = r {
        let back = x.into_rpc();
        assert!(pb_hf_matches(&back, exp, ing, eg, &bytes, n), "C18.rpc-inverse: into_rpc(try_from_rpc(m)) == m for HopField");
    }
}

#[kani::proof]
#[kani::unwind(10)]
fn c18_hop_field_round_trip() {
    let x = any_seg_hop_field();
    let r = SegmentHopField::try_from_rpc(x.clone().into_rpc());
    match r {
        Ok(y) => assert!(seg_hf_eq(&x, &y), "C18.rpc-round: try_from_rpc(into_rpc(x)) == Ok(x) for SegmentHopField"),
        Err(_) => assert!(false, "C18.rpc-round: try_from_rpc(into_rpc(x)) must be Ok for SegmentHopField"),
    }
    kani::cover!(true, "reached");
}

// ---- HopEntry -----------------------------------------------------------------------------------

#[kani::proof]
#[kani::unwind(10)]
fn c18_hop_entry_from_rpc() {
    let present: bool = kani::any();
    let (hf, bytes, n) = any_pb_hop_field();
    let (exp, ing, eg) = (hf.exp_time, hf.ingress, hf.egress);
    let ingress_mtu: u32 = kani::any();
    let m = pb::HopEntry { ingress_mtu, hop_field: if present { Some(hf) } else { None } };
    let r = HopEntry::try_from_rpc(m);
    let want = present && ingress_mtu <= u16::MAX as u32 && hf_in_range(exp, ing, eg, n);
    assert!(r.is_ok() == want, "C18.rpc-range: HopEntry accepted iff hop field present and valid and ingress MTU fits u16");
    kani::cover!(r.is_ok(), "Ok");
    kani::cover!(r.is_err() && !present, "Err: missing hop field");
    kani::cover!(r.is_err() && present && ingress_mtu > 65535, "Err: MTU out of range");
    if let Ok(x) = r {
        let back = x.into_rpc();
        assert!(back.ingress_mtu == ingress_mtu, "C18.rpc-inverse: HopEntry ingress MTU preserved");
        match &back.hop_field {
            Some(h) => assert!(pb_hf_matches(h, exp, ing, eg, &bytes, n), "C18.rpc-inverse: into_rpc(try_from_rpc(m)) == m for HopEntry"),
            None => assert!(false, "C18.rpc-inverse: HopEntry hop field must be present after into_rpc"),
        }
    }
}

#[kani::proof]
#[kani::unwind(10)]
fn c18_hop_entry_round_trip() {
    let x = HopEntry { ingress_mtu: kani::any(), hop_field: any_seg_hop_field() };
    match HopEntry::try_from_rpc(x.clone().into_rpc()) {
        Ok(y) => assert!(y.ingress_mtu == x.ingress_mtu && seg_hf_eq(&x.hop_field, &y.hop_field), "C18.rpc-round: HopEntry round trip"),
        Err(_) => assert!(false, "C18.rpc-round: try_from_rpc(into_rpc(x)) must be Ok for HopEntry"),
    }
    kani::cover!(true, "reached");
}

// ---- PeerEntry ----------------------------------------------------------------------------------

#[kani::proof]
#[kani::unwind(10)]
fn c18_peer_entry_from_rpc() {
    let present: bool = kani::any();
    let (hf, bytes, n) = any_pb_hop_field();
    let (exp, ing, eg) = (hf.exp_time, hf.ingress, hf.egress);
    let (peer_isd_as, peer_interface, peer_mtu): (u64, u64, u32) = (kani::any(), kani::any(), kani::any());
    let m = pb::PeerEntry { peer_isd_as, peer_interface, peer_mtu, hop_field: if present { Some(hf) } else { None } };
    let r = PeerEntry::try_from_rpc(m);
    let want = present && peer_interface <= u16::MAX as u64 && peer_mtu <= u16::MAX as u32 && hf_in_range(exp, ing, eg, n);
    assert!(r.is_ok() == want, "C18.rpc-range: PeerEntry accepted iff hop field present and valid and interface/MTU fit u16");
    kani::cover!(r.is_ok(), "Ok");
    kani::cover!(r.is_err() && !present, "Err: missing hop field");
    kani::cover!(r.is_err() && present && peer_interface > 65535, "Err: interface out of range");
    kani::cover!(r.is_err() && present && peer_mtu > 65535, "Err: MTU out of range");
    if let Ok(x) = r {
        let back = x.into_rpc();
        assert!(
            back.peer_isd_as == peer_isd_as && back.peer_interface == peer_interface && back.peer_mtu == peer_mtu,
            "C18.rpc-inverse: PeerEntry scalar fields preserved"
        );
        match &back.hop_field {
            Some(h) => assert!(pb_hf_matches(h, exp, ing, eg, &bytes, n), "C18.rpc-inverse: into_rpc(try_from_rpc(m)) == m for PeerEntry"),
            None => assert!(false, "C18.rpc-inverse: PeerEntry hop field must be present after into_rpc"),
        }
    }
}

#[kani::proof]
#[kani::unwind(10)]
fn c18_peer_entry_round_trip() {
    let x = PeerEntry {
        peer: crate::identifier::isd_asn::IsdAsn(kani::any()),
        peer_interface: kani::any(),
        peer_mtu: kani::any(),
        hop_field: any_seg_hop_field(),
    };
    match PeerEntry::try_from_rpc(x.clone().into_rpc()) {
        Ok(y) => assert!(
            y.peer == x.peer && y.peer_interface == x.peer_interface && y.peer_mtu == x.peer_mtu && seg_hf_eq(&x.hop_field, &y.hop_field),
            "C18.rpc-round: PeerEntry round trip"
        ),
        Err(_) => assert!(false, "C18.rpc-round: try_from_rpc(into_rpc(x)) must be Ok for PeerEntry"),
    }
    kani::cover!(true, "reached");
}

// ---- SegmentInfo --------------------------------------------------------------------------------
// SegmentInfo::new prost-encodes the two fields (varint loops, <= 10 bytes each).

#[kani::proof]
#[kani::unwind(12)]
fn c18_segment_info_from_rpc() {
    let (timestamp, segment_id): (i64, u32) = (kani::any(), kani::any());
    let r = SegmentInfo::try_from_rpc(pb::SegmentInformation { timestamp, segment_id });
    let want = timestamp >= 0 && timestamp <= u32::MAX as i64 && segment_id <= u16::MAX as u32;
    assert!(r.is_ok() == want, "C18.rpc-range: SegmentInformation accepted iff timestamp fits u32 and segment id fits u16");
    kani::cover!(r.is_ok(), "Ok");
    kani::cover!(r.is_err() && timestamp < 0, "Err: negative timestamp");
    kani::cover!(r.is_err() && segment_id > 65535, "Err: segment id out of range");
    if let Ok(x) = r {
        assert!(x.timestamp as i64 == timestamp && x.segment_id as u32 == segment_id, "C18.rpc-inverse: SegmentInfo fields equal the message fields");
        let back = x.into_rpc();
        assert!(back.timestamp == timestamp && back.segment_id == segment_id, "C18.rpc-inverse: into_rpc(try_from_rpc(m)) == m for SegmentInformation");
    }
}

#[kani::proof]
#[kani::unwind(12)]
fn c18_segment_info_round_trip() {
    let (timestamp, segment_id): (u32, u16) = (kani::any(), kani::any());
    let x = SegmentInfo { timestamp, segment_id, encoded: Vec::new() };
    match SegmentInfo::try_from_rpc(x.into_rpc()) {
        Ok(y) => assert!(y.timestamp == timestamp && y.segment_id == segment_id, "C18.rpc-round: SegmentInfo round trip (timestamp, segment id)"),
        Err(_) => assert!(false, "C18.rpc-round: try_from_rpc(into_rpc(x)) must be Ok for SegmentInfo"),
    }
    kani::cover!(true, "reached");
}
