// Contract module for property C15 (text forms): included from
// crates/libs/sciparse/src/scion/address/socket_addr.rs by
//   #[cfg(kani)] #[path = "/verif/kani/sciparse/text.rs"] mod verif_text;
// so it is a child of `socket_addr` and sees the private `parse_socket_addr`.
//
// Strings: `&str` over a symbolic byte array of length <= N constrained to valid UTF-8 made of ASCII
// and one class of 2-byte code points (lead 0xC2..=0xDF, continuation 0x80..=0xBF).  All obligations
// here are class B (bound = N bytes).
//
// Specification language for numbers ("documented language"): the scion-sdk parsers delegate to
// std's `u16::from_str` / `u64::from_str` / `u16::from_str_radix(_, 16)`; their documented grammar is
// `+`? digit+ (leading zeros allowed).  The spec predicates below use exactly that grammar, i.e. an
// optional leading `+` and leading zeros are *documented alternative spellings*, not violations
// (recorded as an observation in the evidence).
#![allow(dead_code)]

use core::fmt::Write as _;
use std::str::FromStr;

use super::*;
use crate::scion::identifier::{asn::Asn, isd::Isd};

// ------------------------------------------------------------------------------------------------
// symbolic strings
// ------------------------------------------------------------------------------------------------

/// Constrains `buf[..len]` to the UTF-8 subset described above (requires-side of every harness).
fn assume_utf8_subset<const N: usize>(buf: &[u8; N], len: usize) {
    kani::assume(len <= N);
    let mut i = 0;
    while i < N {
        if i < len {
            let b = buf[i];
            if b < 0x80 {
                // ASCII
            } else if b >= 0xC2 && b <= 0xDF {
                // lead byte: a continuation must follow inside the string
                kani::assume(i + 1 < len);
                kani::assume(buf[i + 1] >= 0x80 && buf[i + 1] <= 0xBF);
            } else if b >= 0x80 && b <= 0xBF {
                // continuation: must be preceded by a lead byte
                kani::assume(i > 0 && buf[i - 1] >= 0xC2 && buf[i - 1] <= 0xDF);
            } else {
                kani::assume(false);
            }
        }
        i += 1;
    }
}

fn as_str<const N: usize>(buf: &[u8; N], len: usize) -> &str {
    // SAFETY (harness side): `assume_utf8_subset` made buf[..len] valid UTF-8.
    unsafe { core::str::from_utf8_unchecked(&buf[..len]) }
}

// ------------------------------------------------------------------------------------------------
// spec predicates (byte level, written from the documentation, not from the code)
// ------------------------------------------------------------------------------------------------

/// `+`? digit+ in radix `radix` (10 or 16) with value <= max. Returns the value.
fn spec_number(b: &[u8], radix: u64, max: u64) -> Option<u64> {
    let mut i = 0;
    if b.len() > 0 && b[0] == b'+' {
        i = 1;
    }
    if i >= b.len() {
        return None;
    }
    let mut v: u64 = 0;
    while i < b.len() {
        let c = b[i];
        let d = if c >= b'0' && c <= b'9' {
            (c - b'0') as u64
        } else if radix == 16 && c >= b'a' && c <= b'f' {
            (c - b'a') as u64 + 10
        } else if radix == 16 && c >= b'A' && c <= b'F' {
            (c - b'A') as u64 + 10
        } else {
            return None;
        };
        v = v * radix + d; // strings are <= 12 bytes here: no u64 overflow for radix <= 16
        if v > max {
            return None;
        }
        i += 1;
    }
    Some(v)
}

fn find_byte(b: &[u8], c: u8, from: usize) -> Option<usize> {
    let mut i = from;
    while i < b.len() {
        if b[i] == c {
            return Some(i);
        }
        i += 1;
    }
    None
}

fn count_byte(b: &[u8], c: u8) -> usize {
    let mut n = 0;
    let mut i = 0;
    while i < b.len() {
        if b[i] == c {
            n += 1;
        }
        i += 1;
    }
    n
}

/// ISD: decimal <= 65535.
fn spec_isd(b: &[u8]) -> Option<u16> {
    spec_number(b, 10, u16::MAX as u64).map(|v| v as u16)
}

/// AS: decimal <= 2^32-1 (BGP range) or `h:h:h` with three hex groups <= ffff.
fn spec_asn(b: &[u8]) -> Option<u64> {
    if count_byte(b, b':') == 0 {
        return spec_number(b, 10, u32::MAX as u64);
    }
    let c1 = find_byte(b, b':', 0)?;
    let c2 = find_byte(b, b':', c1 + 1)?;
    if find_byte(b, b':', c2 + 1).is_some() {
        return None;
    }
    let g0 = spec_number(&b[..c1], 16, 0xffff)?;
    let g1 = spec_number(&b[c1 + 1..c2], 16, 0xffff)?;
    let g2 = spec_number(&b[c2 + 1..], 16, 0xffff)?;
    Some((g0 << 32) | (g1 << 16) | g2)
}

/// ISD-AS: exactly one `-`, ISD on the left, AS on the right.
fn spec_isd_asn(b: &[u8]) -> Option<u64> {
    if count_byte(b, b'-') != 1 {
        return None;
    }
    let d = find_byte(b, b'-', 0)?;
    let isd = spec_isd(&b[..d])?;
    let asn = spec_asn(&b[d + 1..])?;
    Some(((isd as u64) << 48) | asn)
}

fn bytes_eq(a: &[u8], b: &[u8]) -> bool {
    if a.len() != b.len() {
        return false;
    }
    let mut i = 0;
    while i < a.len() {
        if a[i] != b[i] {
            return false;
        }
        i += 1;
    }
    true
}

/// Service address: (CS | DS | Wildcard) followed by nothing, `_A` or `_M`.
/// (`<SVC:0xhhhh>` is the displayed form of the unnamed values: see F-svc / c15_kf_svc.)
fn spec_svc(b: &[u8]) -> Option<u16> {
    let (name, suffix): (&[u8], &[u8]) = match find_byte(b, b'_', 0) {
        Some(u) => (&b[..u], &b[u + 1..]),
        None => (b, b"A"),
    };
    let base: u16 = if bytes_eq(name, b"CS") {
        0x0002
    } else if bytes_eq(name, b"DS") {
        0x0001
    } else if bytes_eq(name, b"Wildcard") {
        0x0010
    } else if let Some(v) = spec_svc_hex(name) {
        v
    } else {
        return None;
    };
    if bytes_eq(suffix, b"A") {
        Some(base)
    } else if bytes_eq(suffix, b"M") {
        Some(base | 0x8000)
    } else {
        None
    }
}

/// `<SVC:0xhhhh>`: exactly four lower-case hex digits, anycast part only (the displayed form).
fn spec_svc_hex(name: &[u8]) -> Option<u16> {
    if name.len() != 12 || !bytes_eq(&name[..7], b"<SVC:0x") || name[11] != b'>' {
        return None;
    }
    let mut v: u16 = 0;
    let mut i = 7;
    while i < 11 {
        let c = name[i];
        let d = if c >= b'0' && c <= b'9' {
            c - b'0'
        } else if c >= b'a' && c <= b'f' {
            c - b'a' + 10
        } else {
            return None;
        };
        v = v * 16 + d as u16;
        i += 1;
    }
    if v & 0x8000 != 0 {
        return None;
    }
    Some(v)
}

// ------------------------------------------------------------------------------------------------
// (1) parse_socket_addr: the bracket-and-port splitter, isolated from the inner grammars
// ------------------------------------------------------------------------------------------------

/// Harness-side inner type: accepts a symbolic subset of strings and records exactly which
/// substring the splitter handed to it.
struct Probe {
    ptr: usize,
    len: usize,
}
impl FromStr for Probe {
    type Err = ();
    fn from_str(s: &str) -> Result<Self, ()> {
        if kani::any() {
            Ok(Probe {
                ptr: s.as_ptr() as usize,
                len: s.len(),
            })
        } else {
            Err(())
        }
    }
}

fn sock_split_contract<const N: usize>() {
    let buf: [u8; N] = kani::any();
    let len: usize = kani::any();
    assume_utf8_subset(&buf, len);
    let s = as_str(&buf, len);
    // totality: no panic on any string
    let r = parse_socket_addr::<Probe>(s);
    if let Some((t, p)) = &r {
        let p = *p;
        let b = &buf[..len];
        let base = b.as_ptr() as usize;
        // s == "[" + inner + "]:" + port
        assert!(len >= 4, "C15.sock-exact: accepted string shorter than `[]:d`");
        assert!(b[0] == b'[', "C15.sock-exact: accepted string does not start with `[`");
        assert!(t.ptr == base + 1, "C15.sock-exact: inner string does not start right after `[`");
        let close = 1 + t.len;
        assert!(close + 1 < len, "C15.sock-exact: inner string runs past the port separator");
        assert!(b[close] == b']', "C15.sock-exact: inner string is not followed by `]`");
        assert!(b[close + 1] == b':', "C15.sock-exact: `]` is not followed by `:`");
        let port = spec_number(&b[close + 2..], 10, u16::MAX as u64);
        assert!(port.is_some(), "C15.sock-exact: port part is not a decimal number <= 65535");
        assert!(port == Some(p as u64), "C15.sock-value: returned port differs from the port text");
        kani::cover!(t.len == 0, "accepted with empty inner string");
        kani::cover!(t.len > 0, "accepted with non-empty inner string");
    }
    kani::cover!(r.is_none() && len == 0, "empty string rejected");
    kani::cover!(r.is_none() && len > 0 && buf[0] == b'[', "rejected although it starts with [");
}

#[kani::proof]
#[kani::unwind(8)]
fn c15_sock_split_n6() {
    sock_split_contract::<6>();
}

#[kani::proof]
#[kani::unwind(12)]
fn c15_sock_split_n10() {
    sock_split_contract::<10>();
}

// ------------------------------------------------------------------------------------------------
// (2) FromStr of the identifier types: total; accepted => in the documented language, right value
// ------------------------------------------------------------------------------------------------

fn isd_contract<const N: usize>() {
    let buf: [u8; N] = kani::any();
    let len: usize = kani::any();
    assume_utf8_subset(&buf, len);
    let r = Isd::from_str(as_str(&buf, len));
    let spec = spec_isd(&buf[..len]);
    match r {
        Ok(v) => {
            assert!(spec.is_some(), "C15.isd-lang: accepted string is not a decimal number <= 65535");
            assert!(spec == Some(v.0), "C15.isd-value: parsed ISD differs from the number written");
        }
        Err(_) => assert!(spec.is_none(), "C15.isd-complete: a decimal number <= 65535 was rejected"),
    }
    kani::cover!(r.is_ok(), "ISD accepted");
    kani::cover!(r.is_err() && len > 0, "non-empty string rejected");
}

#[kani::proof]
#[kani::unwind(8)]
fn c15_isd_from_str_n6() {
    isd_contract::<6>();
}

#[kani::proof]
#[kani::unwind(12)]
fn c15_isd_from_str_n10() {
    isd_contract::<10>();
}

fn asn_contract<const N: usize>() {
    let buf: [u8; N] = kani::any();
    let len: usize = kani::any();
    assume_utf8_subset(&buf, len);
    let r = Asn::from_str(as_str(&buf, len));
    let spec = spec_asn(&buf[..len]);
    match r {
        Ok(v) => {
            assert!(spec.is_some(), "C15.asn-lang: accepted string is neither decimal <= 2^32-1 nor h:h:h");
            assert!(spec == Some(v.0), "C15.asn-value: parsed AS differs from the number written");
            assert!(v.0 <= Asn::MAX.0, "C15.asn-range: parsed AS exceeds 48 bits");
        }
        Err(_) => assert!(spec.is_none(), "C15.asn-complete: a string of the documented language was rejected"),
    }
    kani::cover!(r.is_ok() && count_byte(&buf[..len], b':') == 2, "colon-hex AS accepted");
    kani::cover!(r.is_ok() && count_byte(&buf[..len], b':') == 0, "decimal AS accepted");
    kani::cover!(r.is_err() && len > 0, "non-empty string rejected");
}

#[kani::proof]
#[kani::unwind(7)]
fn c15_asn_from_str_n5() {
    asn_contract::<5>();
}

#[kani::proof]
#[kani::unwind(8)]
fn c15_asn_from_str_n6() {
    asn_contract::<6>();
}

#[kani::proof]
#[kani::unwind(12)]
fn c15_asn_from_str_n10() {
    asn_contract::<10>();
}

fn isd_asn_contract<const N: usize>() {
    let buf: [u8; N] = kani::any();
    let len: usize = kani::any();
    assume_utf8_subset(&buf, len);
    let r = IsdAsn::from_str(as_str(&buf, len));
    let spec = spec_isd_asn(&buf[..len]);
    match r {
        Ok(v) => {
            assert!(spec.is_some(), "C15.ia-lang: accepted string is not `<isd>-<as>`");
            assert!(spec == Some(v.0), "C15.ia-value: parsed ISD-AS differs from what is written");
        }
        Err(_) => assert!(spec.is_none(), "C15.ia-complete: a string of the documented language was rejected"),
    }
    kani::cover!(r.is_ok(), "ISD-AS accepted");
    kani::cover!(r.is_err() && count_byte(&buf[..len], b'-') == 1, "rejected with exactly one dash");
}

#[kani::proof]
#[kani::unwind(7)]
fn c15_isd_asn_from_str_n5() {
    isd_asn_contract::<5>();
}

#[kani::proof]
#[kani::unwind(8)]
fn c15_isd_asn_from_str_n6() {
    isd_asn_contract::<6>();
}

#[kani::proof]
#[kani::unwind(12)]
fn c15_isd_asn_from_str_n10() {
    isd_asn_contract::<10>();
}

fn svc_contract<const N: usize>() {
    let buf: [u8; N] = kani::any();
    let len: usize = kani::any();
    assume_utf8_subset(&buf, len);
    let r = ServiceAddr::from_str(as_str(&buf, len));
    let spec = spec_svc(&buf[..len]);
    match r {
        Ok(v) => {
            assert!(spec.is_some(), "C15.svc-lang: accepted string is not a service address form");
            assert!(spec == Some(v.0), "C15.svc-value: parsed service address differs from the name written");
        }
        Err(_) => assert!(spec.is_none(), "C15.svc-complete: a displayed service address form was rejected"),
    }
    kani::cover!(r.is_ok(), "service address accepted");
    kani::cover!(r.is_err() && len > 0, "non-empty string rejected");
}

#[kani::proof]
#[kani::unwind(8)]
fn c15_svc_from_str_n6() {
    svc_contract::<6>();
}

#[kani::proof]
#[kani::unwind(16)]
fn c15_svc_from_str_n14() {
    // 14 bytes: covers `Wildcard_M` (10) and `<SVC:0xhhhh>_M` (14)
    svc_contract::<14>();
}

// ------------------------------------------------------------------------------------------------
// (3) value -> Display -> parse round trips (Display driven into a fixed sink, no String)
// ------------------------------------------------------------------------------------------------

struct Sink {
    buf: [u8; 32],
    len: usize,
}
impl Sink {
    fn new() -> Self {
        Sink { buf: [0; 32], len: 0 }
    }
    fn as_str(&self) -> &str {
        // SAFETY (harness side): only `write_str` appends, and it appends whole `&str`s.
        unsafe { core::str::from_utf8_unchecked(&self.buf[..self.len]) }
    }
}
impl core::fmt::Write for Sink {
    fn write_str(&mut self, s: &str) -> core::fmt::Result {
        let b = s.as_bytes();
        if self.len + b.len() > 32 {
            return Err(core::fmt::Error);
        }
        let mut i = 0;
        while i < b.len() {
            self.buf[self.len + i] = b[i];
            i += 1;
        }
        self.len += b.len();
        Ok(())
    }
}

#[kani::proof]
#[kani::unwind(34)]
fn c15_rt_isd() {
    let v = Isd(kani::any());
    let mut sink = Sink::new();
    let w = write!(sink, "{}", v);
    assert!(w.is_ok(), "C15.rt-isd: Display failed / does not fit 32 bytes");
    let back = Isd::from_str(sink.as_str());
    assert!(back == Ok(v), "C15.rt-isd: parse(display(isd)) != isd");
    kani::cover!(v.0 == 0, "wildcard ISD");
    kani::cover!(v.0 == u16::MAX, "max ISD");
}

fn rt_asn(v: Asn) {
    let mut sink = Sink::new();
    let w = write!(sink, "{}", v);
    assert!(w.is_ok(), "C15.rt-asn: Display failed / does not fit 32 bytes");
    let back = Asn::from_str(sink.as_str());
    assert!(back == Ok(v), "C15.rt-asn: parse(display(asn)) != asn");
}

#[kani::proof]
#[kani::unwind(34)]
fn c15_rt_asn_decimal() {
    let x: u64 = kani::any();
    kani::assume(x <= u32::MAX as u64);
    rt_asn(Asn(x));
    kani::cover!(x == u32::MAX as u64, "largest decimal AS");
}

#[kani::proof]
#[kani::unwind(34)]
fn c15_rt_asn_hex() {
    let x: u64 = kani::any();
    kani::assume(x > u32::MAX as u64 && x <= Asn::MAX.0);
    rt_asn(Asn(x));
    kani::cover!(x == Asn::MAX.0, "largest AS");
    kani::cover!(x == (1u64 << 32), "smallest colon-hex AS");
}

#[kani::proof]
#[kani::unwind(34)]
fn c15_rt_isd_asn() {
    let v = IsdAsn(kani::any());
    let mut sink = Sink::new();
    let w = write!(sink, "{}", v);
    assert!(w.is_ok(), "C15.rt-ia: Display failed / does not fit 32 bytes");
    let back = IsdAsn::from_str(sink.as_str());
    assert!(back == Ok(v), "C15.rt-ia: parse(display(isd-as)) != isd-as");
    kani::cover!(v.asn().0 > u32::MAX as u64, "colon-hex AS part");
    kani::cover!(v.asn().0 <= u32::MAX as u64, "decimal AS part");
}

/// The unnamed service values are the F-svc input class.
fn svc_is_named(v: u16) -> bool {
    let a = v & 0x7fff;
    a == 0x0001 || a == 0x0002 || a == 0x0010
}

fn rt_svc(v: ServiceAddr) {
    let mut sink = Sink::new();
    let w = write!(sink, "{}", v);
    assert!(w.is_ok(), "C15.rt-svc: Display failed / does not fit 32 bytes");
    let back = ServiceAddr::from_str(sink.as_str());
    assert!(back == Ok(v), "C15.rt-svc: parse(display(service address)) != service address");
}

#[kani::proof]
#[kani::unwind(34)]
fn c15_rt_svc() {
    // every one of the 2^16 host service values
    let v = ServiceAddr(kani::any());
    rt_svc(v);
    kani::cover!(svc_is_named(v.0) && v.is_multicast(), "named multicast");
    kani::cover!(!svc_is_named(v.0) && v.is_multicast(), "unnamed multicast");
    kani::cover!(!svc_is_named(v.0) && !v.is_multicast(), "unnamed anycast");
}
