// Contract module for crates/libs/sciparse/src/proto/payload/scmp/model.rs (property C14, clause 2).
// Included from the real crate by `#[cfg(kani)] #[path = ...] mod verif_c14_scmp_model;`.
//
// Contract of "build an SCMP error packet" = `ScionScmpPacket::new(src, dst, path, err.into())` followed
// by `try_encode_to_vec()` (the constructor used by pocketscion's simulator, snap-dataplane's gateway
// and the SDK), for each of the five error message kinds, ANY addresses and ANY offending bytes of
// bounded length:
//
//   ensures  encoded length <= 1232
//            the bytes behind the SCMP fixed header are a prefix of the offending packet
//            (the whole offending packet when it fits)
//            type byte = message type, header NextHdr = SCMP(202), PayloadLen = SCMP message length
//            the SCMP checksum verifies: RFC 1071 one's-complement sum over the SCION pseudo header
//            (DstIA, SrcIA, DstHost, SrcHost, upper-layer length (u32), 3 zero bytes, next header)
//            and the SCMP message is 0xffff                               (`spec_checksum_ok`)
//
// `spec_checksum_ok` works on the encoded packet bytes only and calls nothing from sciparse.
#![allow(dead_code)]

use std::net::{Ipv4Addr, Ipv6Addr};

use super::*;
use crate::{
    address::{addr::ScionAddr, host_addr::ScionHostAddr},
    core::encode::WireEncode,
    dataplane_path::model::DpPath,
    packet::model::ScionScmpPacket,
    payload::scmp::types::{ScmpDestinationUnreachableCode, ScmpParameterProblemCode},
};

const SPEC_MAX: usize = 1232;

/// RFC 1071 checksum verification over the SCION pseudo header + upper layer message of an encoded
/// SCION packet `pkt` (layout taken from the SCION header specification).
pub(crate) fn spec_checksum_ok(pkt: &[u8]) -> bool {
    let hdr_len = (pkt[5] as usize) * 4;
    let dl = ((((pkt[9] >> 4) & 3) as usize) + 1) * 4;
    let sl = (((pkt[9] & 3) as usize) + 1) * 4;
    let addr_end = 12 + 16 + dl + sl;
    if hdr_len < addr_end || hdr_len > pkt.len() {
        return false;
    }
    let msg_len = pkt.len() - hdr_len;
    let mut sum: u32 = 0;
    // address header: all fields have even length and start at an even offset
    let mut i = 12;
    while i + 1 < addr_end {
        sum += ((pkt[i] as u32) << 8) | (pkt[i + 1] as u32);
        i += 2;
    }
    // upper layer length (32 bit), zero (24 bit), next header (8 bit)
    sum += ((msg_len >> 16) & 0xffff) as u32;
    sum += (msg_len & 0xffff) as u32;
    sum += pkt[4] as u32;
    // message, zero padded to even length
    let mut j = hdr_len;
    while j + 1 < pkt.len() {
        sum += ((pkt[j] as u32) << 8) | (pkt[j + 1] as u32);
        j += 2;
    }
    if j < pkt.len() {
        sum += (pkt[j] as u32) << 8;
    }
    sum = (sum & 0xffff) + (sum >> 16);
    sum = (sum & 0xffff) + (sum >> 16);
    sum == 0xffff
}

fn any_host() -> ScionHostAddr {
    if kani::any() {
        ScionHostAddr::V4(Ipv4Addr::from(kani::any::<[u8; 4]>()))
    } else {
        ScionHostAddr::V6(Ipv6Addr::from(kani::any::<[u8; 16]>()))
    }
}

fn any_addr() -> ScionAddr {
    ScionAddr::new(IsdAsn::from_u64(kani::any()), any_host())
}

/// Host address of a FIXED family with symbolic bytes (keeps all header offsets concrete).
fn host_of(v6: bool) -> ScionHostAddr {
    if v6 {
        ScionHostAddr::V6(Ipv6Addr::from(kani::any::<[u8; 16]>()))
    } else {
        ScionHostAddr::V4(Ipv4Addr::from(kani::any::<[u8; 4]>()))
    }
}

fn addr_of(v6: bool) -> ScionAddr {
    ScionAddr::new(IsdAsn::from_u64(kani::any()), host_of(v6))
}

/// Offending packet: exactly Q symbolic bytes (a symbolic length makes the encode buffer a
/// symbolic-size array, which CBMC cannot handle within 10 GB for this encoder).
fn any_offender<const Q: usize>() -> Vec<u8> {
    let bytes: [u8; Q] = kani::any();
    bytes.to_vec()
}

/// Common postcondition on the encoded packet.
fn check_encoded(pkt: &[u8], offender: &[u8], h: usize, msg_type: u8, with_checksum: bool) {
    assert!(pkt.len() <= SPEC_MAX, "C14.size: SCMP error packet longer than 1232 bytes");
    assert!(pkt.len() >= 36, "C14.size: encoded packet shorter than a SCION header");
    let hdr_len = (pkt[5] as usize) * 4;
    assert!(hdr_len + h <= pkt.len(), "C14.size: SCMP fixed header does not fit the encoded packet");
    assert!(pkt[4] == 202, "C14.shape: next header is not SCMP");
    let payload_len = ((pkt[6] as usize) << 8) | (pkt[7] as usize);
    assert!(hdr_len + payload_len == pkt.len(), "C14.shape: PayloadLen differs from the SCMP message length");
    assert!(pkt[hdr_len] == msg_type, "C14.shape: SCMP type byte differs from the message kind");
    // quote = prefix of the offending packet
    let q = pkt.len() - hdr_len - h;
    assert!(q <= offender.len(), "C14.quote: quote longer than the offending packet");
    if hdr_len + h + offender.len() <= SPEC_MAX {
        assert!(q == offender.len(), "C14.quote: offending packet fits but is not quoted completely");
    }
    let k: usize = kani::any();
    if k < q {
        assert!(pkt[hdr_len + h + k] == offender[k], "C14.quote: quoted byte differs from the offending packet");
    }
    if with_checksum {
        assert!(spec_checksum_ok(pkt), "C14.checksum: SCMP checksum of the built error packet does not verify");
    }
}

fn build(msg: ScmpMessage, src_v6: bool, dst_v6: bool) -> Vec<u8> {
    let p = ScionScmpPacket::new(addr_of(src_v6), addr_of(dst_v6), DpPath::Empty, msg);
    let r = p.try_encode_to_vec();
    assert!(r.is_ok(), "C14.size: encoding an SCMP error packet failed");
    r.unwrap()
}

// Address families are fixed per harness (IPv4 -> IPv4 here, IPv6 variants below) with symbolic
// address bytes and ISD-AS, so that header offsets are concrete.
// Shape harnesses: size, header fields, quote = prefix; offender = 4 symbolic bytes.
// Checksum harnesses: the same construction with offender = 3 symbolic bytes (odd length) and the RFC 1071
// verification (the u16-pointer-cast summation in `ChecksumDigest::add_slice` is expensive for CBMC).
macro_rules! model_harnesses {
    ($shape:ident, $cksum:ident, $h:expr, $ty:expr, $mk:expr) => {
        #[kani::proof]
        #[kani::unwind(40)]
        fn $shape() {
            let off = any_offender::<4>();
            let m: ScmpMessage = $mk(off.clone());
            let pkt = build(m, false, false);
            check_encoded(&pkt, &off, $h, $ty, false);
            kani::cover!(off.len() == 4, "full-length offender");
        }

        #[kani::proof]
        #[kani::unwind(40)]
        fn $cksum() {
            let off = any_offender::<3>();
            let m: ScmpMessage = $mk(off.clone());
            let pkt = build(m, false, false);
            check_encoded(&pkt, &off, $h, $ty, true);
            kani::cover!(off.len() == 3, "full-length offender");
        }
    };
}

model_harnesses!(c14_model_dest_unreachable_q4, c14_cksum_dest_unreachable_q3, 8, 1, |o: Vec<u8>| -> ScmpMessage {
    ScmpMessage::from(ScmpDestinationUnreachable::new(ScmpDestinationUnreachableCode::from(kani::any::<u8>()), o))
});
model_harnesses!(c14_model_packet_too_big_q4, c14_cksum_packet_too_big_q3, 8, 2, |o: Vec<u8>| -> ScmpMessage {
    ScmpMessage::from(ScmpPacketTooBig::new(kani::any(), o))
});
model_harnesses!(c14_model_parameter_problem_q4, c14_cksum_parameter_problem_q3, 8, 4, |o: Vec<u8>| -> ScmpMessage {
    ScmpMessage::from(ScmpParameterProblem::new(ScmpParameterProblemCode::from(kani::any::<u8>()), kani::any(), o))
});
model_harnesses!(c14_model_ext_if_down_q4, c14_cksum_ext_if_down_q3, 20, 5, |o: Vec<u8>| -> ScmpMessage {
    ScmpMessage::from(ScmpExternalInterfaceDown::new(IsdAsn::from_u64(kani::any()), kani::any(), o))
});
model_harnesses!(c14_model_int_conn_down_q4, c14_cksum_int_conn_down_q3, 28, 6, |o: Vec<u8>| -> ScmpMessage {
    ScmpMessage::from(ScmpInternalConnectivityDown::new(IsdAsn::from_u64(kani::any()), kani::any(), kani::any(), o))
});

/// IPv6 source / IPv6 destination and mixed families (ParameterProblem, the kind the gateway sends).
#[kani::proof]
#[kani::unwind(40)]
fn c14_cksum_parameter_problem_v6_q3() {
    let off = any_offender::<3>();
    let m = ScmpMessage::from(ScmpParameterProblem::new(ScmpParameterProblemCode::from(kani::any::<u8>()), kani::any(), off.clone()));
    let src_v6: bool = kani::any();
    let pkt = if src_v6 { build(m, true, true) } else { build(m, false, true) };
    check_encoded(&pkt, &off, 8, 4, true);
    kani::cover!(src_v6, "v6 -> v6");
    kani::cover!(!src_v6, "v4 -> v6");
}

/// Size budget of the whole packet for long offenders (loop-free: only `required_size()` is
/// evaluated, which is what `try_encode*` allocates / demands and what `encode_unchecked` returns):
/// every error kind x offender length 0..=9216 (zero bytes; the size depends on the length only) x
/// any v4/v6 addresses, empty path: header + message <= 1232.
#[kani::proof]
fn c14_model_size_budget_l9216() {
    let len: usize = kani::any();
    kani::assume(len <= 9216);
    let off = vec![0u8; len];
    let kind: u8 = kani::any();
    kani::assume(kind < 5);
    let (m, h): (ScmpMessage, usize) = match kind {
        0 => (ScmpDestinationUnreachable::new(ScmpDestinationUnreachableCode::from(0), off).into(), 8),
        1 => (ScmpPacketTooBig::new(0, off).into(), 8),
        2 => (ScmpParameterProblem::new(ScmpParameterProblemCode::from(0), 0, off).into(), 8),
        3 => (ScmpExternalInterfaceDown::new(IsdAsn::from_u64(0), 0, off).into(), 20),
        _ => (ScmpInternalConnectivityDown::new(IsdAsn::from_u64(0), 0, 0, off).into(), 28),
    };
    let p = ScionScmpPacket::new(any_addr(), any_addr(), DpPath::Empty, m);
    let hdr = p.header.required_size();
    let total = p.required_size();
    assert!(hdr >= 36 && hdr <= 60, "C14.size: header size of an empty-path packet out of range");
    assert!(total <= SPEC_MAX, "C14.size: SCMP error packet longer than 1232 bytes");
    assert!(total >= hdr + h && total - hdr - h <= len, "C14.quote: quote longer than the offending packet");
    if hdr + h + len <= SPEC_MAX {
        assert!(total == hdr + h + len, "C14.quote: offending packet fits but is not quoted completely");
    }
    kani::cover!(total == SPEC_MAX, "budget exhausted");
    kani::cover!(total < SPEC_MAX && len > 0, "short packet");
    kani::cover!(kind == 4 && len == 9216, "jumbo offender, largest SCMP header");
}
