// Contract module for crates/libs/sciparse/src/proto/dataplane_path/standard/routing.rs
// (property C11).  Included from the real crate by
//   #[cfg(kani)] #[path = "/verif/kani/sciparse/routing.rs"] mod verif_routing;
// at the end of routing.rs, so it is a child of `routing` and sees its private items.
//
// Contract of `StandardPathView::advance_{ingress,egress}_with_validator` (DESIGN §3/C11):
//   requires  the bytes are accepted by the view constructor (nothing else: pointers, segment
//             table, flags, field contents arbitrary), arbitrary validator verdicts,
//             arbitrary `from_internal_interface`
//   ensures   Err(AdvanceError)  ==> every byte identical                         (C11.atomic)
//             Ok(_)              ==> byte-wise frame: only byte 0 (CurrINF|CurrHF), the SegID
//                                    bytes of the pre-current info field and the two
//                                    router-alert bits of the pre-current hop field differ
//                                                                                  (C11.frame)
//             Ok(_)              ==> pointer rule                                  (C11.mono)
//             Ok(_)              ==> SegID rule per step                           (C11.segid)
//             Ok(ValidationFailed) <=> some validator call returned Err            (C11.verdict)
//             no panic (expect / unreachable!() / arithmetic / pointer checks: Kani built-ins)
// Interpretation (stated in the unit registry): `Ok(ValidationFailed(..))` is, by the API
// documentation, "advanced, but validation failed"; it is an Ok outcome for atomicity at this
// level (the caller drops the packet).
//
// The pre-state is decoded from the raw bytes by the spec functions below (RFC/IETF draft field
// positions), never through the accessors of the code under contract.
#![allow(dead_code)]

use std::cell::Cell;

use super::*;
use crate::core::view::View;

// ------------------------------------------------------------------------------------------
// spec-side decoding of a standard path (draft-dekater-scion-dataplane, PathMeta / Info / Hop)
// ------------------------------------------------------------------------------------------

#[derive(Clone, Copy)]
struct Pre {
    ci: usize,
    chf: usize,
    seg: [usize; 3],
    ninfo: usize,
    nhops: usize,
    size: usize,
}

fn decode_meta(b: &[u8]) -> Pre {
    let w = u32::from_be_bytes([b[0], b[1], b[2], b[3]]);
    let seg = [((w >> 12) & 0x3f) as usize, ((w >> 6) & 0x3f) as usize, (w & 0x3f) as usize];
    let ninfo = (seg[0] > 0) as usize + (seg[1] > 0) as usize + (seg[2] > 0) as usize;
    let nhops = seg[0] + seg[1] + seg[2];
    Pre {
        ci: (w >> 30) as usize,
        chf: ((w >> 24) & 0x3f) as usize,
        seg,
        ninfo,
        nhops,
        size: 4 + 8 * ninfo + 12 * nhops,
    }
}

/// (segment index, first hop of its segment, last hop of its segment) of hop `h`, `h < nhops`.
fn spec_segment_of(p: &Pre, h: usize) -> (usize, bool, bool) {
    if h < p.seg[0] {
        (0, h == 0, h + 1 == p.seg[0])
    } else if h < p.seg[0] + p.seg[1] {
        (1, h == p.seg[0], h + 1 == p.seg[0] + p.seg[1])
    } else {
        (2, h == p.seg[0] + p.seg[1], h + 1 == p.nhops)
    }
}

fn info_off(_p: &Pre, i: usize) -> usize {
    4 + 8 * i
}
fn hop_off(p: &Pre, h: usize) -> usize {
    4 + 8 * p.ninfo + 12 * h
}
fn be16(b: &[u8], o: usize) -> u16 {
    u16::from_be_bytes([b[o], b[o + 1]])
}

// ------------------------------------------------------------------------------------------
// validator with symbolic verdicts that records what it was shown
// ------------------------------------------------------------------------------------------

struct SymValidator {
    hop_calls: Cell<u8>,
    seg_calls: Cell<u8>,
    failed: Cell<bool>,
    called_after_failure: Cell<bool>,
    first_idx: Cell<usize>,
    first_segid: Cell<u16>,
    first_start: Cell<bool>,
    first_end: Cell<bool>,
    second_idx: Cell<usize>,
}
impl SymValidator {
    fn new() -> Self {
        SymValidator {
            hop_calls: Cell::new(0),
            seg_calls: Cell::new(0),
            failed: Cell::new(false),
            called_after_failure: Cell::new(false),
            first_idx: Cell::new(usize::MAX),
            first_segid: Cell::new(0),
            first_start: Cell::new(false),
            first_end: Cell::new(false),
            second_idx: Cell::new(usize::MAX),
        }
    }
    fn verdict(&self) -> Result<(), u8> {
        if self.failed.get() {
            self.called_after_failure.set(true);
        }
        if kani::any() {
            Ok(())
        } else {
            self.failed.set(true);
            Err(1)
        }
    }
}
impl AdvanceValidator for &SymValidator {
    type Error = u8;
    fn validate_hop(
        &self,
        hop_index: usize,
        _hop_field: &HopFieldView,
        info_field: &InfoFieldView,
        is_segment_start: bool,
        is_segment_end: bool,
    ) -> Result<(), u8> {
        if self.hop_calls.get() == 0 {
            self.first_idx.set(hop_index);
            self.first_segid.set(info_field.segment_id());
            self.first_start.set(is_segment_start);
            self.first_end.set(is_segment_end);
        } else {
            self.second_idx.set(hop_index);
        }
        self.hop_calls.set(self.hop_calls.get() + 1);
        self.verdict()
    }
    fn validate_segment_change(
        &self,
        _hop_index: usize,
        _c: &HopFieldView,
        _ci: &InfoFieldView,
        _n: &HopFieldView,
        _ni: &InfoFieldView,
    ) -> Result<(), u8> {
        self.seg_calls.set(self.seg_calls.get() + 1);
        self.verdict()
    }
}

// ------------------------------------------------------------------------------------------
// shared postconditions
// ------------------------------------------------------------------------------------------

/// C11.atomic at one symbolic byte position (the whole N-byte buffer, i.e. also the bytes
/// behind the view).
fn assert_unchanged<const N: usize>(before: &[u8; N], after: &[u8; N]) {
    let i: usize = kani::any();
    kani::assume(i < N);
    assert!(before[i] == after[i], "C11.atomic: Err(AdvanceError) leaves every path byte unchanged");
}

/// C11.frame at one symbolic byte position.
fn assert_frame<const N: usize>(p: &Pre, before: &[u8; N], after: &[u8; N]) {
    let i: usize = kani::any();
    kani::assume(i < N);
    let io = info_off(p, p.ci);
    let ho = hop_off(p, p.chf);
    if i == 0 {
        // CurrINF | CurrHF: constrained by C11.mono
    } else if i == io + 2 || i == io + 3 {
        // SegID of the pre-current info field: constrained by C11.segid
    } else if i == ho {
        assert!(
            (before[i] ^ after[i]) & !0x03 == 0,
            "C11.frame: only the two router-alert bits of the current hop field's flag byte may change"
        );
    } else {
        assert!(
            before[i] == after[i],
            "C11.frame: Ok(_) changes only CurrINF/CurrHF, SegID of the current info field, router-alert bits of the current hop field"
        );
    }
}

// ------------------------------------------------------------------------------------------
// egress
// ------------------------------------------------------------------------------------------

struct Run<const N: usize, R> {
    p: Pre,
    before: [u8; N],
    after: [u8; N],
    res: R,
    v: SymValidator,
    from_internal: bool,
}

fn run_egress<const N: usize>() -> Option<Run<N, Result<EgressValidateResult<u8>, AdvanceError>>> {
    let mut buf: [u8; N] = kani::any();
    let before = buf;
    let p = decode_meta(&before);
    let v = SymValidator::new();
    let Ok((view, _rest)) = StandardPathView::try_from_mut_slice(&mut buf) else {
        assert!(p.size > N, "C11.ctor: the constructor rejects only byte strings shorter than their layout");
        return None;
    };
    assert!(p.size <= N, "C11.ctor: the constructor accepts only byte strings that contain their layout");
    let res = view.advance_egress_with_validator(&v);
    Some(Run { p, before, after: buf, res, v, from_internal: false })
}

fn egress_frame_contract<const N: usize>() -> bool {
    let Some(run) = run_egress::<N>() else {
        return false;
    };
    match run.res {
        Err(_) => {
            kani::cover!(true, "egress Err");
            assert_unchanged(&run.before, &run.after);
        }
        Ok(r) => {
            let failed = matches!(r, EgressValidateResult::ValidationFailed(..));
            kani::cover!(!failed, "egress Ok");
            kani::cover!(failed, "egress Ok(ValidationFailed)");
            assert_frame(&run.p, &run.before, &run.after);
        }
    }
    true
}

fn egress_rule_contract<const N: usize>() {
    let Some(run) = run_egress::<N>() else {
        return;
    };
    let Run { p, before, after, res, v, .. } = run;
    let q = decode_meta(&after);
    let Ok(r) = res else {
        // complete characterisation of the Err outcomes (so that Ok is not vacuous)
        let in_range = p.chf < p.nhops && p.ci < p.ninfo;
        if in_range {
            let (seg, _start, end) = spec_segment_of(&p, p.chf);
            assert!(seg != p.ci || end, "C11.total: egress fails only on out-of-range or inconsistent pointers or at a segment end");
        }
        kani::cover!(!in_range, "egress Err: pointer out of range");
        kani::cover!(in_range, "egress Err: segment end or inconsistent CurrINF");
        return;
    };
    let (failed, out) = match r {
        EgressValidateResult::Ok(o) => (false, o),
        EgressValidateResult::ValidationFailed(o, _) => (true, o),
    };
    kani::cover!(!failed, "egress Ok");
    kani::cover!(failed, "egress Ok(ValidationFailed)");
    // pointers were in range and consistent
    assert!(p.chf < p.nhops && p.ci < p.ninfo, "C11.mono: egress Ok only with CurrHF/CurrINF in range");
    let (seg, start, end) = spec_segment_of(&p, p.chf);
    assert!(seg == p.ci, "C11.mono: egress Ok only if CurrINF is the segment of CurrHF");
    assert!(!end, "C11.mono: egress never advances out of a segment end (segment change is an ingress step)");
    // monotone pointer rule
    assert!(q.chf == p.chf + 1, "C11.mono: egress Ok moves CurrHF forward by exactly one");
    assert!(q.chf <= p.nhops - 1, "C11.mono: egress Ok keeps CurrHF within the hop fields");
    assert!(q.ci == p.ci, "C11.mono: egress Ok leaves CurrINF");
    assert!(q.seg[0] == p.seg[0] && q.seg[1] == p.seg[1] && q.seg[2] == p.seg[2], "C11.frame: segment lengths unchanged");
    // SegID rule
    let io = info_off(&p, p.ci);
    let ho = hop_off(&p, p.chf);
    let cons_dir = before[io] & 0x01 != 0;
    let segid = be16(&before, io + 2);
    let sigma = be16(&before, ho + 6);
    let segid_after = be16(&after, io + 2);
    kani::cover!(cons_dir, "egress Ok in construction direction");
    kani::cover!(!cons_dir, "egress Ok against construction direction");
    if cons_dir {
        assert!(segid_after == segid ^ sigma, "C11.segid: egress in construction direction XORs mac[0..2] into SegID");
    } else {
        assert!(segid_after == segid, "C11.segid: egress against construction direction leaves SegID");
    }
    // the validator saw the hop before the SegID update, exactly once
    assert!(v.hop_calls.get() == 1 && v.seg_calls.get() == 0, "C11.verdict: egress validates exactly the current hop");
    assert!(v.first_idx.get() == p.chf, "C11.verdict: egress validates the current hop index");
    assert!(v.first_segid.get() == segid, "C11.segid: egress validation sees the SegID before the step");
    assert!(v.first_start.get() == start && !v.first_end.get(), "C11.verdict: segment position flags shown to the validator");
    assert!(failed == v.failed.get(), "C11.verdict: ValidationFailed iff the validator rejected");
    // router alert: the egress-side alert bit (normalised) is reported and consumed
    let alert_bit: u8 = if cons_dir { 0x01 } else { 0x02 };
    assert!(out.scmp_alert == (before[ho] & alert_bit != 0), "C11.alert: egress reports the egress router alert");
    assert!(after[ho] & alert_bit == 0, "C11.alert: egress consumes its router alert bit");
    assert!((after[ho] ^ before[ho]) & !alert_bit == 0, "C11.alert: egress leaves the other flag bits");
    // returned interface
    let eg = if cons_dir { be16(&before, ho + 4) } else { be16(&before, ho + 2) };
    assert!(out.egress_interface == eg, "C11.out: egress interface is the travel-direction egress of the current hop");
}

#[kani::proof]
#[kani::unwind(5)]
fn c11_egress_atomic_frame_n100() {
    let accepted = egress_frame_contract::<100>();
    kani::cover!(!accepted, "constructor rejects (required size > N)");
}

#[kani::proof]
#[kani::unwind(5)]
fn c11_egress_step_rule_n100() {
    egress_rule_contract::<100>();
}

// ------------------------------------------------------------------------------------------
// ingress
// ------------------------------------------------------------------------------------------

fn run_ingress<const N: usize>() -> Option<Run<N, Result<IngressValidateResult<u8>, AdvanceError>>> {
    let mut buf: [u8; N] = kani::any();
    let before = buf;
    let p = decode_meta(&before);
    let v = SymValidator::new();
    let from_internal: bool = kani::any();
    let Ok((view, _rest)) = StandardPathView::try_from_mut_slice(&mut buf) else {
        return None;
    };
    let res = view.advance_ingress_with_validator(&v, from_internal);
    Some(Run { p, before, after: buf, res, v, from_internal })
}

fn ingress_frame_contract<const N: usize>() -> bool {
    let Some(run) = run_ingress::<N>() else {
        return false;
    };
    match run.res {
        Err(_) => {
            kani::cover!(true, "ingress Err");
            assert_unchanged(&run.before, &run.after);
        }
        Ok(r) => {
            let failed = matches!(r, IngressValidateResult::ValidationFailed(..));
            kani::cover!(!failed, "ingress Ok");
            kani::cover!(failed, "ingress Ok(ValidationFailed)");
            assert_frame(&run.p, &run.before, &run.after);
        }
    }
    true
}

fn ingress_rule_contract<const N: usize>() {
    let Some(run) = run_ingress::<N>() else {
        return;
    };
    let Run { p, before, after, res, v, from_internal } = run;
    let q = decode_meta(&after);
    let Ok(r) = res else {
        let in_range = p.chf < p.nhops && p.ci < p.ninfo;
        if in_range {
            let (seg, start, end) = spec_segment_of(&p, p.chf);
            let last = p.chf + 1 == p.nhops;
            // a segment change needs the next info field (fails on a path with an empty middle segment)
            assert!(
                seg != p.ci || (start && end) || (end && !last && p.ci + 1 >= p.ninfo),
                "C11.total: ingress fails only on out-of-range/inconsistent pointers, a single-hop segment or a missing next segment"
            );
        }
        kani::cover!(!in_range, "ingress Err: pointer out of range");
        kani::cover!(in_range, "ingress Err: single-hop segment or inconsistent CurrINF");
        return;
    };
    let (failed, out) = match r {
        IngressValidateResult::Ok(o) => (false, o),
        IngressValidateResult::ValidationFailed(o, _) => (true, o),
    };
    kani::cover!(!failed, "ingress Ok");
    kani::cover!(failed, "ingress Ok(ValidationFailed)");
    assert!(p.chf < p.nhops && p.ci < p.ninfo, "C11.mono: ingress Ok only with CurrHF/CurrINF in range");
    let (seg, start, end) = spec_segment_of(&p, p.chf);
    assert!(seg == p.ci, "C11.mono: ingress Ok only if CurrINF is the segment of CurrHF");
    assert!(!(start && end), "C11.mono: ingress rejects single-hop segments");
    let last = p.chf + 1 == p.nhops;
    let seg_change = end && !last;
    kani::cover!(seg_change, "ingress Ok with segment change");
    kani::cover!(last, "ingress Ok at the last hop field");
    kani::cover!(!end, "ingress Ok inside a segment");
    let d = seg_change as usize;
    assert!(q.chf == p.chf + d, "C11.mono: ingress Ok moves CurrHF forward by one exactly at a segment change");
    assert!(q.ci == p.ci + d, "C11.mono: ingress Ok moves CurrINF with CurrHF at a segment change");
    assert!(q.chf < p.nhops && q.ci < p.ninfo, "C11.mono: ingress Ok keeps the pointers in range");
    assert!(q.seg[0] == p.seg[0] && q.seg[1] == p.seg[1] && q.seg[2] == p.seg[2], "C11.frame: segment lengths unchanged");
    match out.action {
        IngressAdvanceAction::ForwardLocal => {
            assert!(last, "C11.mono: ForwardLocal only at the last hop field");
        }
        IngressAdvanceAction::ContinueEgress { .. } => {
            assert!(!last, "C11.mono: the last hop field is delivered locally");
        }
    }
    // SegID rule
    let io = info_off(&p, p.ci);
    let ho = hop_off(&p, p.chf);
    let cons_dir = before[io] & 0x01 != 0;
    let segid = be16(&before, io + 2);
    let sigma = be16(&before, ho + 6);
    let segid_after = be16(&after, io + 2);
    kani::cover!(cons_dir && !from_internal, "ingress Ok, construction direction, from outside");
    kani::cover!(!cons_dir && !from_internal, "ingress Ok, against construction direction, from outside");
    kani::cover!(from_internal, "ingress Ok from an internal interface");
    let expect = if !from_internal && !cons_dir { segid ^ sigma } else { segid };
    assert!(segid_after == expect, "C11.segid: ingress XORs mac[0..2] into SegID only against construction direction and from outside");
    assert!(v.first_segid.get() == expect, "C11.segid: ingress updates SegID before validation");
    // validator calls
    assert!(v.first_idx.get() == p.chf, "C11.verdict: ingress validates the current hop index first");
    assert!(v.first_start.get() == start && v.first_end.get() == end, "C11.verdict: segment position flags shown to the validator");
    assert!(!v.called_after_failure.get(), "C11.verdict: nothing is validated after the first failure");
    if seg_change {
        assert!(
            v.failed.get() || (v.hop_calls.get() == 2 && v.seg_calls.get() == 1 && v.second_idx.get() == p.chf + 1),
            "C11.verdict: a segment change validates the change and the first hop of the next segment"
        );
    } else {
        assert!(v.hop_calls.get() == 1 && v.seg_calls.get() == 0, "C11.verdict: no segment-change validation inside a segment");
    }
    assert!(failed == v.failed.get(), "C11.verdict: ValidationFailed iff a validator call rejected");
    // router alert: consumed only when entering from outside
    let alert_bit: u8 = if cons_dir { 0x02 } else { 0x01 };
    assert!(out.scmp_alert == (before[ho] & alert_bit != 0), "C11.alert: ingress reports the ingress router alert");
    if from_internal {
        assert!(after[ho] == before[ho], "C11.alert: ingress from inside leaves the hop field flags");
    } else {
        assert!(after[ho] & alert_bit == 0, "C11.alert: ingress from outside consumes its router alert bit");
        assert!((after[ho] ^ before[ho]) & !alert_bit == 0, "C11.alert: ingress leaves the other flag bits");
    }
    let ing = if cons_dir { be16(&before, ho + 2) } else { be16(&before, ho + 4) };
    assert!(out.ingress_interface == ing, "C11.out: ingress interface is the travel-direction ingress of the current hop");
}

#[kani::proof]
#[kani::unwind(5)]
fn c11_ingress_atomic_frame_n100() {
    let accepted = ingress_frame_contract::<100>();
    kani::cover!(!accepted, "constructor rejects (required size > N)");
}

#[kani::proof]
#[kani::unwind(5)]
fn c11_ingress_step_rule_n100() {
    ingress_rule_contract::<100>();
}

// Full input domain: 3 segments x 63 hop fields = 4 + 24 + 189*12 = 2296 bytes is the largest
// layout the meta header can describe, so N = 2296 covers EVERY byte string the constructor
// accepts; the only loop is the 3-iteration segment scan (class P).
#[kani::proof]
#[kani::unwind(5)]
fn c11_egress_atomic_frame_full() {
    let accepted = egress_frame_contract::<2296>();
    assert!(accepted, "C11.ctor: every meta header describes a layout of at most 2296 bytes");
}
#[kani::proof]
#[kani::unwind(5)]
fn c11_egress_step_rule_full() {
    egress_rule_contract::<2296>();
}
#[kani::proof]
#[kani::unwind(5)]
fn c11_ingress_atomic_frame_full() {
    let accepted = ingress_frame_contract::<2296>();
    assert!(accepted, "C11.ctor: every meta header describes a layout of at most 2296 bytes");
}
#[kani::proof]
#[kani::unwind(5)]
fn c11_ingress_step_rule_full() {
    ingress_rule_contract::<2296>();
}

// ------------------------------------------------------------------------------------------
// HopMacValidator exactness (AES-CMAC uninterpreted: the stub records its arguments and
// returns a fresh symbolic value)
// ------------------------------------------------------------------------------------------

static mut MAC_CALLS: u32 = 0;
static mut A_BETA: u16 = 0;
static mut A_TS: u32 = 0;
static mut A_EXP: u8 = 0;
static mut A_IN: u16 = 0;
static mut A_EG: u16 = 0;
static mut A_KEY: [u8; 16] = [0; 16];
static mut A_RET: [u8; 6] = [0; 6];

fn uninterpreted_hop_mac(beta: u16, ts: u32, exp: u8, cin: u16, ceg: u16, key: &ForwardingKey) -> [u8; 6] {
    let r: [u8; 6] = kani::any();
    unsafe {
        MAC_CALLS += 1;
        A_BETA = beta;
        A_TS = ts;
        A_EXP = exp;
        A_IN = cin;
        A_EG = ceg;
        A_KEY = *key;
        A_RET = r;
    }
    r
}

#[kani::proof]
#[kani::stub(crate::proto::dataplane_path::standard::mac::algo::calculate_hop_mac, uninterpreted_hop_mac)]
#[kani::unwind(17)]
fn c11_validator_exact() {
    let hb: [u8; 12] = kani::any();
    let ib: [u8; 8] = kani::any();
    let key: [u8; 16] = kani::any();
    let (hop, _) = HopFieldView::try_from_slice(&hb).unwrap();
    let (info, _) = InfoFieldView::try_from_slice(&ib).unwrap();
    let val = HopMacValidator { key };
    let r = val.validate_hop(kani::any(), hop, info, kani::any(), kani::any());
    kani::cover!(r.is_ok(), "MAC accepted");
    kani::cover!(r.is_err(), "MAC rejected");
    unsafe {
        assert!(MAC_CALLS == 1, "C11.validator: exactly one MAC evaluation per hop");
        assert!(A_BETA == be16(&ib, 2), "C11.validator: chaining value = SegID of the info field shown");
        assert!(A_TS == u32::from_be_bytes([ib[4], ib[5], ib[6], ib[7]]), "C11.validator: timestamp of the segment");
        assert!(A_EXP == hb[1], "C11.validator: ExpTime of the hop field");
        assert!(A_IN == be16(&hb, 2) && A_EG == be16(&hb, 4), "C11.validator: ConsIngress / ConsEgress of the hop field");
        let k = kani::any_where(|k: &usize| *k < 16);
        assert!(A_KEY[k] == key[k], "C11.validator: the validator's forwarding key");
        let mut same = true;
        let mut j = 0;
        while j < 6 {
            same &= hb[6 + j] == A_RET[j];
            j += 1;
        }
        assert!(r.is_ok() == same, "C11.validator: validate_hop == Ok <=> hop.mac == calculate_hop_mac(authenticated tuple, key)");
    }
    // the segment-change hook of this validator accepts everything (documented)
    assert!(val.validate_segment_change(0, hop, info, hop, info).is_ok(), "C11.validator: HopMacValidator does not judge segment changes");
}

// ------------------------------------------------------------------------------------------
// MAC conformance (thorough, concrete): the real AES-CMAC on one known input block.
// Reference value computed with OpenSSL 3.0 (`openssl mac -cipher AES-128-CBC CMAC`), which
// reproduces RFC 4493 example 2 with the same key; block = 0000 1234 5f000000 00 3f 0102 0304 0000.
// ------------------------------------------------------------------------------------------

#[kani::proof]
#[kani::unwind(20)]
fn c11_mac_known_vector_t() {
    let key: [u8; 16] = [0x2b, 0x7e, 0x15, 0x16, 0x28, 0xae, 0xd2, 0xa6, 0xab, 0xf7, 0x15, 0x88, 0x09, 0xcf, 0x4f, 0x3c];
    let mac = calculate_hop_mac(0x1234, 0x5f00_0000, 0x3f, 0x0102, 0x0304, &key);
    let want = [0x34u8, 0xd6, 0xc6, 0x23, 0xdf, 0x84];
    let mut j = 0;
    while j < 6 {
        assert!(mac[j] == want[j], "C11.mac-vector: AES-CMAC(key, hop block)[0..6] matches the reference value");
        j += 1;
    }
    kani::cover!(true, "reached");
}
