// Contract module for crates/libs/sciparse/src/scion/path/combinator/graph.rs (property C04,
// clauses 1-4 of DESIGN.md §3/C04).  Child module of `graph`, so it sees the private fields of
// `PathSolution`, `SolutionEdge` and the private fns `valid_next_seg`, `initialize_segment_id`.
//
//   C04.seq      valid_next_seg / try_add_edge == SCION sequencing rule (inductive step from an
//                ARBITRARY solution whose kind sequence is in the rule's prefix-closed language)
//   C04.depth    edges.len() <= 3 after try_add_edge
//   C04.hops     number_of_hops: no underflow / overflow under its call-site precondition
//   C04.order    get_paths comparator is a total preorder, cost first, then edge count
//   C04.meta-*   metadata of PathSolution::path() tells the truth about the encoded path
#![allow(dead_code)]

use super::*;
use crate::scion::segment::verif_c18_signed::mk_segment;
use crate::segment::{AsEntry, HopEntry, PeerEntry, SegmentHopField};
use crate::dataplane_path::standard::types::HopFieldMac;

// ------------------------------------------------------------------------------------------------
// spec: the SCION segment sequencing rule, written as an explicit list (true = core segment)
// ------------------------------------------------------------------------------------------------

/// {nc, c, nc·nc, nc·c, c·nc, nc·c·nc}; the empty sequence is the start state.
fn allowed(seq: &[bool]) -> bool {
    matches!(
        seq,
        [false] | [true] | [false, false] | [false, true] | [true, false] | [false, true, false]
    )
}

/// A zero-sized entry type: lets `as_entries.len()` be fully symbolic without memory.
#[derive(PartialEq, Eq, PartialOrd, Ord, Hash, Clone)]
pub(super) struct ZEntry;
impl Entry for ZEntry {
    fn get(&self) -> &AsEntry {
        unreachable!("ZEntry::get is never called by the functions under contract")
    }
}

pub(super) fn zseg_with_len(n: usize) -> PathSegment<ZEntry> {
    let mut v: Vec<ZEntry> = Vec::new();
    // SAFETY: ZEntry is zero-sized; a Vec of ZSTs has capacity usize::MAX and owns no memory.
    unsafe { v.set_len(n) };
    mk_segment(0, 0, v)
}

pub(super) fn any_vertex() -> Vertex {
    if kani::any() {
        Vertex::AS(IsdAsn(kani::any()))
    } else {
        Vertex::Peering {
            local_ia: IsdAsn(kani::any()),
            local_ifid: kani::any(),
            peer_ia: IsdAsn(kani::any()),
            peer_ifid: kani::any(),
        }
    }
}

pub(super) fn any_edge() -> Edge {
    Edge {
        weight: kani::any(),
        shortcut_idx: kani::any(),
        peer: if kani::any() { Some(kani::any()) } else { None },
    }
}

// ------------------------------------------------------------------------------------------------
// C04-1: sequencing rule, inductive step
// ------------------------------------------------------------------------------------------------
// The number of existing edges `N` is a harness constant (one harness per N) so that the Vec
// lengths are concrete for CBMC; kinds, edges, vertices and cost are symbolic.

fn mk_edges<'a>(
    n: usize,
    kinds: &[bool; 4],
    core: &'a InputSegment<'a, ZEntry>,
    ncore: &'a InputSegment<'a, ZEntry>,
) -> Vec<SolutionEdge<'a, ZEntry>> {
    let mut edges = Vec::with_capacity(4);
    for i in 0..n {
        edges.push(SolutionEdge {
            edge: any_edge(),
            src: any_vertex(),
            dst: any_vertex(),
            segment: if kinds[i] { core } else { ncore },
        });
    }
    edges
}

/// From an ARBITRARY solution with n edges of arbitrary kinds `valid_next_seg` answers exactly
/// "kinds·next is in the rule" (n = 4 exercises the catch-all arm).
fn seq_table(n: usize) {
    let pseg = zseg_with_len(kani::any());
    let core = InputSegment::Core(&pseg, SegmentID::from([0u8; 32]));
    let ncore = InputSegment::NonCore(&pseg, SegmentID::from([1u8; 32]));
    let kinds: [bool; 4] = kani::any();
    let next_is_core: bool = kani::any();
    let edges = mk_edges(n, &kinds, &core, &ncore);
    let sol = PathSolution { edges, current_vertex: any_vertex(), cost: kani::any() };
    let got = sol.valid_next_seg(if next_is_core { &core } else { &ncore });

    let mut seq = [false; 5];
    for i in 0..n {
        seq[i] = kinds[i];
    }
    seq[n] = next_is_core;
    let want = allowed(&seq[..n + 1]);
    assert!(got == want, "C04.seq: valid_next_seg differs from the SCION sequencing rule");
    // every state with <= 2 edges has an accepted continuation, every state with >= 1 a rejected one
    kani::cover!(if n <= 2 { got } else { !got }, "typical outcome reached (accepted for n <= 2, rejected beyond)");
    kani::cover!(if n >= 1 && n <= 2 { !got } else { true }, "both outcomes reached where both exist");
}

#[kani::proof]
#[kani::unwind(6)]
fn c04_seq_table_n0() {
    seq_table(0)
}
#[kani::proof]
#[kani::unwind(6)]
fn c04_seq_table_n1() {
    seq_table(1)
}
#[kani::proof]
#[kani::unwind(6)]
fn c04_seq_table_n2() {
    seq_table(2)
}
#[kani::proof]
#[kani::unwind(6)]
fn c04_seq_table_n3() {
    seq_table(3)
}
#[kani::proof]
#[kani::unwind(6)]
fn c04_seq_table_n4() {
    seq_table(4)
}

/// Inductive step of the search invariant Inv(sol) := kinds(sol.edges) in rule ∪ {ε}
/// (hence len <= 3): try_add_edge returns Some iff kinds·next is in the rule, and then the new
/// solution satisfies Inv, extends the old edge list by exactly `e`, adds the weight and moves to
/// e.dst.  Base case: PathSolution::new has no edges.  So every solution the BFS ever holds has
/// <= 3 edges and PathSolution::path() pushes <= 3 segments into the 3-slot ArrayVec.
fn add_edge_step(n: usize) {
    let pseg = zseg_with_len(kani::any());
    let core = InputSegment::Core(&pseg, SegmentID::from([0u8; 32]));
    let ncore = InputSegment::NonCore(&pseg, SegmentID::from([1u8; 32]));
    let kinds: [bool; 4] = kani::any();
    // requires Inv(sol)
    kani::assume(n == 0 || allowed(&kinds[..n]));
    let edges = mk_edges(n, &kinds, &core, &ncore);
    let cost: u64 = kani::any();
    let sol = PathSolution { edges, current_vertex: any_vertex(), cost };
    let next_is_core: bool = kani::any();
    let e = SolutionEdge {
        edge: any_edge(),
        src: any_vertex(),
        dst: any_vertex(),
        segment: if next_is_core { &core } else { &ncore },
    };
    // requires: the weight function keeps the cost sum in range (number_of_hops: <= len each)
    kani::assume(cost.checked_add(e.edge.weight).is_some());

    let r = sol.try_add_edge(e.clone());

    let mut seq = [false; 5];
    for i in 0..n {
        seq[i] = kinds[i];
    }
    seq[n] = next_is_core;
    let want = allowed(&seq[..n + 1]);
    assert!(r.is_some() == want, "C04.seq: try_add_edge accepts exactly the sequences of the rule");
    // frame: the operand is untouched
    assert!(sol.edges.len() == n && sol.cost == cost, "C04.seq: try_add_edge must not modify its operand");
    if let Some(s) = r {
        assert!(s.edges.len() == n + 1, "C04.depth: exactly one edge is appended");
        assert!(s.edges.len() <= 3, "C04.depth: a solution never has more than 3 edges");
        assert!(s.cost == cost + e.edge.weight, "C04.seq: cost is the sum of the edge weights");
        assert!(s.current_vertex == e.dst, "C04.seq: current vertex is the new edge's destination");
        let k: usize = kani::any();
        kani::assume(k <= n);
        let (got, exp) = if k < n { (&s.edges[k], &sol.edges[k]) } else { (&s.edges[k], &e) };
        assert!(
            std::ptr::eq(got.segment, exp.segment) && got.edge == exp.edge && got.src == exp.src && got.dst == exp.dst,
            "C04.seq: existing edges are kept in order and the new edge is last"
        );
        // Inv re-established
        let mut ks = [false; 4];
        for i in 0..n + 1 {
            ks[i] = s.edges[i].segment.is_core();
        }
        assert!(allowed(&ks[..n + 1]), "C04.seq: the invariant (kind sequence in the rule) is re-established");
    }
    kani::cover!(if n <= 2 { want } else { !want }, "typical outcome reached (added for n <= 2, rejected for n = 3)");
    kani::cover!(if n >= 1 && n <= 2 { !want } else { true }, "both outcomes reached where both exist");
}

#[kani::proof]
#[kani::unwind(6)]
fn c04_add_edge_step_n0() {
    add_edge_step(0);
}
#[kani::proof]
#[kani::unwind(6)]
fn c04_add_edge_step_n1() {
    add_edge_step(1)
}
#[kani::proof]
#[kani::unwind(6)]
fn c04_add_edge_step_n2() {
    add_edge_step(2)
}
#[kani::proof]
#[kani::unwind(6)]
fn c04_add_edge_step_n3() {
    add_edge_step(3)
}

/// Base case of the invariant.
#[kani::proof]
fn c04_new_solution_is_empty() {
    let v = any_vertex();
    let s: PathSolution<'_, ZEntry> = PathSolution::new(v);
    assert!(s.edges.is_empty() && s.cost == 0 && s.current_vertex == v, "C04.seq: new solution is the empty sequence at the start vertex");
    kani::cover!(true, "reached");
}

// ------------------------------------------------------------------------------------------------
// C04-4: number_of_hops
// ------------------------------------------------------------------------------------------------

/// Call sites: add_core_segment (idx 0, len >= 1 because first_ia() is Some) and
/// add_non_core_segment (idx < len by enumerate()).  Under `len >= 1 && idx < len` there is no
/// underflow/overflow (Kani's arithmetic checks) and the weight is the number of links used.
#[kani::proof]
fn c04_number_of_hops_no_underflow() {
    let len: usize = kani::any();
    let idx: u64 = kani::any();
    let towards_peer: bool = kani::any();
    kani::assume(len >= 1 && idx < len as u64);
    let pseg = zseg_with_len(len);
    let seg = if kani::any() {
        InputSegment::Core(&pseg, SegmentID::from([0u8; 32]))
    } else {
        InputSegment::NonCore(&pseg, SegmentID::from([0u8; 32]))
    };
    let w = number_of_hops(&seg, idx, towards_peer);
    let links = (len as u128) - 1 - (idx as u128) + (towards_peer as u128);
    assert!(w as u128 == links, "C04.hops: weight = entries - 1 - shortcut index (+1 across a peering link)");
    kani::cover!(w == 0, "zero links (last entry)");
    kani::cover!(towards_peer && w == 1, "peer link only");
    kani::cover!(len == usize::MAX, "maximal length");
    std::mem::forget(pseg);
}

// ------------------------------------------------------------------------------------------------
// shared harness-side constructors (also used by c19_graph.rs and c01_chain.rs)
// ------------------------------------------------------------------------------------------------

pub(super) fn any_hop_field() -> SegmentHopField {
    SegmentHopField {
        expiration_units: kani::any(),
        cons_ingress: kani::any(),
        cons_egress: kani::any(),
        mac: HopFieldMac(kani::any()),
    }
}

pub(super) fn any_peer() -> PeerEntry {
    PeerEntry { peer: IsdAsn(kani::any()), peer_interface: kani::any(), peer_mtu: kani::any(), hop_field: any_hop_field() }
}

/// Fully symbolic AS entry with a concrete number of peer entries.
pub(super) fn any_entry(npeers: usize) -> AsEntry {
    let mut peer_entries = Vec::with_capacity(2);
    for _ in 0..npeers {
        peer_entries.push(any_peer());
    }
    AsEntry {
        local: IsdAsn(kani::any()),
        next: IsdAsn(kani::any()),
        mtu: kani::any(),
        hop_entry: HopEntry { ingress_mtu: kani::any(), hop_field: any_hop_field() },
        peer_entries,
        extensions: Vec::new(),
        unsigned_extensions: Vec::new(),
    }
}

/// Symbolic segment with `l` entries, each with `npeers` peer entries.
pub(super) fn any_segment(l: usize, npeers: usize) -> PathSegment<AsEntry> {
    let mut v = Vec::with_capacity(4);
    for _ in 0..l {
        v.push(any_entry(npeers));
    }
    mk_segment(kani::any(), kani::any(), v)
}

/// Edge as produced by add_core_segment / add_non_core_segment for a segment of `l` entries with
/// `npeers` peers each: shortcut_idx < l; peer index < npeers; core segments: idx 0, no peer.
pub(super) fn any_wf_edge(l: usize, npeers: usize, is_core: bool) -> Edge {
    let shortcut_idx: usize = kani::any();
    kani::assume(shortcut_idx < l);
    let peer = if npeers > 0 && kani::any() {
        let p: usize = kani::any();
        kani::assume(p < npeers);
        Some(p)
    } else {
        None
    };
    if is_core {
        kani::assume(shortcut_idx == 0 && peer.is_none());
    }
    Edge { weight: kani::any(), shortcut_idx, peer }
}

pub(super) fn stub_dp_fingerprint(
    _dp_path: crate::dataplane_path::view::ScionDpPathViewRef<'_>,
    _src_ia: IsdAsn,
    _dst_ia: IsdAsn,
) -> crate::path::fingerprint::data_plane::DpPathFingerprint {
    crate::path::fingerprint::data_plane::DpPathFingerprint::from([0u8; 32])
}

pub(super) fn stub_cp_fingerprint(
    _path: &ScionPath,
) -> Result<crate::path::fingerprint::control_plane::PathFingerprint, crate::path::fingerprint::control_plane::FingerprintError> {
    Ok(crate::path::fingerprint::control_plane::PathFingerprint::from([0u8; 32]))
}

// ------------------------------------------------------------------------------------------------
// C04-2: the comparator of get_paths
// ------------------------------------------------------------------------------------------------
// The closure passed to `sort_by` in MultiGraph::get_paths is anonymous; it is reproduced here
// verbatim (`sort_cmp`) and tied to the source by a textual anchor in the unit file (any edit of
// the closure text makes the run exit 2 "lost anchor").

fn sort_cmp<E: Entry>(a: &PathSolution<'_, E>, b: &PathSolution<'_, E>) -> std::cmp::Ordering {
    let d = a.cost.cmp(&b.cost).then(a.edges.len().cmp(&b.edges.len()));
    if d.is_ne() {
        return d;
    }

    for (edge_a, edge_b) in a.edges.iter().zip(b.edges.iter()) {
        // Prefer solutions that use a peer link.
        let d = edge_a.edge.peer.cmp(&edge_b.edge.peer);
        if d.is_ne() {
            return d;
        }
        // Prefer solutions with a higher shortcut index.
        let d = edge_a
            .edge
            .shortcut_idx
            .cmp(&edge_b.edge.shortcut_idx)
            .reverse();
        if d.is_ne() {
            return d;
        }
        // Finally, use the segment id to break ties.
        let d = edge_a.segment.id().cmp(edge_b.segment.id());
        if d.is_ne() {
            return d;
        }
    }
    std::cmp::Ordering::Equal
}

fn any_solution<'a>(segs: &'a [InputSegment<'a, ZEntry>; 3]) -> PathSolution<'a, ZEntry> {
    let n: usize = kani::any();
    kani::assume(n <= 3);
    let mut edges = Vec::with_capacity(4);
    for _ in 0..3 {
        let which: usize = kani::any();
        kani::assume(which < 3);
        edges.push(SolutionEdge { edge: any_edge(), src: Vertex::AS(IsdAsn(0)), dst: Vertex::AS(IsdAsn(0)), segment: &segs[which] });
    }
    // symbolic length without a symbolic-length allocation
    edges.truncate(n);
    PathSolution { edges, current_vertex: Vertex::AS(IsdAsn(0)), cost: kani::any() }
}

/// Pairwise key laws of the comparator on solutions with <= 1 edge each (round 3 decomposition of
/// the triple harness below, which needs > 55 GB): reflexive, antisymmetric, primary key = cost,
/// secondary key = number of edges.  Transitivity is NOT covered here.
#[kani::proof]
#[kani::unwind(34)]
fn c04_sort_cmp_keys_pair_e1() {
    use std::cmp::Ordering::*;
    let pseg = zseg_with_len(1);
    let mut id0 = [0u8; 32];
    let mut id1 = [0u8; 32];
    id0[0] = kani::any();
    id1[0] = kani::any();
    let segs = [
        InputSegment::NonCore(&pseg, SegmentID::from(id0)),
        InputSegment::Core(&pseg, SegmentID::from(id1)),
        InputSegment::NonCore(&pseg, SegmentID::from(id0)),
    ];
    let mut a = any_solution(&segs);
    let mut b = any_solution(&segs);
    let na: usize = kani::any();
    let nb: usize = kani::any();
    kani::assume(na <= 1 && nb <= 1);
    a.edges.truncate(na);
    b.edges.truncate(nb);
    let ab = sort_cmp(&a, &b);
    let ba = sort_cmp(&b, &a);
    assert!(sort_cmp(&a, &a) == Equal, "C04.order: comparator is reflexive");
    assert!(ab == ba.reverse(), "C04.order: comparator is antisymmetric (cmp(a,b) == reverse(cmp(b,a)))");
    if a.cost < b.cost {
        assert!(ab == Less, "C04.order: primary key is the cost");
    }
    if a.cost == b.cost && a.edges.len() < b.edges.len() {
        assert!(ab == Less, "C04.order: secondary key is the number of edges");
    }
    kani::cover!(ab == Less && a.cost == b.cost && a.edges.len() == b.edges.len(), "tie broken by edge attributes");
    kani::cover!(ab == Equal && a.edges.len() == 1, "equal one-edge solutions");
    kani::cover!(ab == Greater, "greater reachable");
}

/// Order laws on symbolic triples of solutions with <= 3 edges each (edges: symbolic weight,
/// shortcut index, peer; segment ids: three symbolic ids differing in a symbolic first byte).
#[kani::proof]
#[kani::unwind(34)]
#[kani::solver(kissat)]
fn c04_sort_cmp_total_preorder() {
    use std::cmp::Ordering::*;
    let pseg = zseg_with_len(1);
    let mut id0 = [0u8; 32];
    let mut id1 = [0u8; 32];
    let mut id2 = [0u8; 32];
    id0[0] = kani::any();
    id1[0] = kani::any();
    id2[0] = kani::any();
    let segs = [
        InputSegment::NonCore(&pseg, SegmentID::from(id0)),
        InputSegment::Core(&pseg, SegmentID::from(id1)),
        InputSegment::NonCore(&pseg, SegmentID::from(id2)),
    ];
    let a = any_solution(&segs);
    let b = any_solution(&segs);
    let c = any_solution(&segs);
    let ab = sort_cmp(&a, &b);
    let ba = sort_cmp(&b, &a);
    let bc = sort_cmp(&b, &c);
    let ac = sort_cmp(&a, &c);
    assert!(sort_cmp(&a, &a) == Equal, "C04.order: comparator is reflexive");
    assert!(ab == ba.reverse(), "C04.order: comparator is antisymmetric (cmp(a,b) == reverse(cmp(b,a)))");
    if ab != Greater && bc != Greater {
        assert!(ac != Greater, "C04.order: comparator is transitive");
    }
    if ab == Equal && bc == Equal {
        assert!(ac == Equal, "C04.order: equivalence is transitive");
    }
    if a.cost < b.cost {
        assert!(ab == Less, "C04.order: primary key is the cost");
    }
    if a.cost == b.cost && a.edges.len() < b.edges.len() {
        assert!(ab == Less, "C04.order: secondary key is the number of edges");
    }
    kani::cover!(ab == Less && a.cost == b.cost && a.edges.len() == b.edges.len(), "tie broken by edge attributes");
    kani::cover!(ab == Equal && a.edges.len() == 3, "equal three-edge solutions");
    kani::cover!(ab == Less && bc == Less, "strict chain");
}

// ------------------------------------------------------------------------------------------------
// C04-3: metadata truthfulness of PathSolution::path() (single-edge solutions, L entries)
// ------------------------------------------------------------------------------------------------

fn hop_expiry(ts: u32, exp: u8) -> u32 {
    // timestamp + floor((exp + 1) * 337.5 s), saturating
    let d = ((exp as u64 + 1) * 3375) / 10;
    ts.saturating_add(d as u32)
}

/// Single edge over `l` ARBITRARY entries (1 peer entry each).  The segment is only required to
/// have non-zero interface ids where a link is traversed (otherwise the interface list is
/// shortened by design of the code: id 0 = "no interface").
fn meta_single_edge(l: usize) {
    use crate::dataplane_path::view::ScionDpPathView;
    let pseg = any_segment(l, 1);
    let is_core: bool = kani::any();
    let seg = if is_core { InputSegment::Core(&pseg, SegmentID::from([0u8; 32])) } else { InputSegment::NonCore(&pseg, SegmentID::from([0u8; 32])) };
    let edge = any_wf_edge(l, 1, is_core);
    let s = edge.shortcut_idx;
    let dst = any_vertex();
    let sol = PathSolution {
        edges: vec![SolutionEdge { edge, src: any_vertex(), dst, segment: &seg }],
        current_vertex: dst,
        cost: kani::any(),
    };
    let cons_dir = match dst {
        Vertex::AS(ia) => ia == pseg.as_entries[l - 1].local,
        _ => false,
    };
    // the hop field used for entry idx
    let hf = |idx: usize| -> &SegmentHopField {
        if idx == s && edge.peer.is_some() { &pseg.as_entries[idx].peer_entries[edge.peer.unwrap()].hop_field } else { &pseg.as_entries[idx].hop_entry.hop_field }
    };
    // requires: traversed links have non-zero ids
    for idx in s..l {
        if idx + 1 < l {
            kani::assume(hf(idx).cons_egress != 0);
        } else {
            kani::assume(hf(idx).cons_egress == 0);
        }
        if idx > s || edge.peer.is_some() {
            kani::assume(hf(idx).cons_ingress != 0);
        }
        if idx == 0 {
            kani::assume(pseg.as_entries[0].hop_entry.hop_field.cons_ingress == 0 && pseg.as_entries[0].hop_entry.ingress_mtu == 0);
        }
    }
    let r = sol.path();
    kani::cover!(r.is_ok(), "Ok");
    let Ok(Some(p)) = r else { return };
    let md = p.metadata().unwrap();
    let ifs = md.interfaces.as_ref().unwrap();
    let ScionDpPathView::Standard(v) = p.dp_path() else {
        assert!(false, "C04.meta-hops: standard path expected");
        return;
    };
    let n = l - s;
    assert!(v.hop_field_count() as usize == n, "C04.meta-hops: one hop field per traversed entry");
    // encoded hop k (travel order) is entry idx(k)
    let k: usize = kani::any();
    kani::assume(k < n);
    let idx = if cons_dir { s + k } else { l - 1 - k };
    let h = &v.hop_fields()[k];
    let src_hf = hf(idx);
    let mut mac_same = true;
    for b in 0..6 {
        mac_same &= h.mac().0[b] == src_hf.mac.0[b];
    }
    assert!(
        h.cons_ingress() == src_hf.cons_ingress && h.cons_egress() == src_hf.cons_egress && h.exp_time() == src_hf.expiration_units && mac_same,
        "C04.meta-hops: hop fields are copied bit for bit in travel order"
    );
    let info = &v.info_fields()[0];
    assert!(
        info.flags().contains(InfoFieldFlags::CONS_DIR) == cons_dir && info.flags().contains(InfoFieldFlags::PEERING) == edge.peer.is_some() && info.timestamp() == pseg.info().timestamp,
        "C04.meta-hops: info field flags and timestamp follow direction / peering / segment"
    );
    // interface list: travel-order (egress, ingress) pairs, first ingress / last egress omitted;
    // a peer hop at the end keeps its peering interface
    let mut exp_if = [(IsdAsn(0), 0u16); 8];
    let mut m = 0;
    for kk in 0..n {
        let i2 = if cons_dir { s + kk } else { l - 1 - kk };
        let f = hf(i2);
        let (tin, teg) = if cons_dir { (f.cons_ingress, f.cons_egress) } else { (f.cons_egress, f.cons_ingress) };
        let ia = pseg.as_entries[i2].local;
        let in_is_link = if cons_dir { i2 > s || edge.peer.is_some() } else { i2 + 1 < l };
        let eg_is_link = if cons_dir { i2 + 1 < l } else { i2 > s || edge.peer.is_some() };
        if in_is_link {
            exp_if[m] = (ia, tin);
            m += 1;
        }
        if eg_is_link {
            exp_if[m] = (ia, teg);
            m += 1;
        }
    }
    assert!(ifs.len() == m, "C04.meta-ifs: interface list has one entry per traversed link end");
    let j: usize = kani::any();
    kani::assume(j < m);
    assert!(ifs[j].interface.isd_asn == exp_if[j].0 && ifs[j].interface.id == exp_if[j].1, "C04.meta-ifs: interface list names the encoded links in travel order");
    if m > 0 {
        assert!(p.src_ia() == exp_if[0].0 && p.dst_ia() == exp_if[m - 1].0, "C04.meta-srcdst: source / destination are the first / last AS of the path");
    }
    // expiry
    let mut min_exp = u32::MAX;
    for i2 in s..l {
        let e = hop_expiry(pseg.info().timestamp, hf(i2).expiration_units);
        if e < min_exp {
            min_exp = e;
        }
    }
    assert!(md.expiration == min_exp as u64, "C04.meta-expiry: metadata expiry is the earliest hop expiry");
    assert!(p.expiration() == Some(min_exp), "C04.meta-expiry: equals the expiry read from the encoded path");
    // MTU
    let mut mtu = u16::MAX;
    for i2 in s..l {
        let e = &pseg.as_entries[i2];
        let as_mtu = if e.mtu > u16::MAX as u32 { u16::MAX } else { e.mtu as u16 };
        if as_mtu < mtu {
            mtu = as_mtu;
        }
        if i2 > s && e.hop_entry.ingress_mtu != 0 && e.hop_entry.ingress_mtu < mtu {
            mtu = e.hop_entry.ingress_mtu;
        }
        if i2 == s {
            if let Some(pi) = edge.peer {
                if e.peer_entries[pi].peer_mtu < mtu {
                    mtu = e.peer_entries[pi].peer_mtu;
                }
            }
        }
    }
    assert!(md.mtu == mtu, "C04.meta-mtu: MTU is the minimum over traversed AS MTUs, ingress MTUs of traversed links and the peer MTU");
    kani::cover!(edge.peer.is_some() && cons_dir, "peer, cons-dir");
    kani::cover!(edge.peer.is_none() && !cons_dir && s == 0, "full segment against cons-dir");
    kani::cover!(pseg.as_entries[l - 1].mtu > 65535, "AS MTU beyond u16");
}

#[kani::proof]
#[kani::unwind(14)]
#[kani::stub(crate::path::fingerprint::data_plane::DpPathFingerprint::from_dp_path, stub_dp_fingerprint)]
#[kani::stub(crate::path::fingerprint::control_plane::PathFingerprint::try_from_scion_path, stub_cp_fingerprint)]
fn c04_meta_single_edge_l2() {
    meta_single_edge(2)
}

#[kani::proof]
#[kani::unwind(14)]
#[kani::stub(crate::path::fingerprint::data_plane::DpPathFingerprint::from_dp_path, stub_dp_fingerprint)]
#[kani::stub(crate::path::fingerprint::control_plane::PathFingerprint::try_from_scion_path, stub_cp_fingerprint)]
fn c04_meta_single_edge_l3() {
    meta_single_edge(3)
}
