// Contract module for crates/libs/sciparse/src/scion/segment.rs (property C18, clause 2) and
// harness-side constructors for PathSegment (private field `info`) used by the graph units.
// Included by `#[cfg(kani)] #[path = ...] pub(crate) mod verif_c18_signed;` at the end of segment.rs.
#![allow(dead_code)]

use super::*;

/// Harness-side constructor: PathSegment has no public generic constructor (`info` is private).
/// `encoded` is left empty: the prost encoding of the info is irrelevant to the combinator.
pub(crate) fn mk_segment<E: Entry>(timestamp: u32, segment_id: u16, as_entries: Vec<E>) -> PathSegment<E> {
    PathSegment {
        info: SegmentInfo { timestamp, segment_id, encoded: Vec::new() },
        as_entries,
    }
}

// ------------------------------------------------------------------------------------------------
// C18-2: AsEntry::associated_data
// ------------------------------------------------------------------------------------------------
//   C18.assoc-prefix  for the entry at index k of a signed segment the associated data is exactly
//                     info.encoded ‖ (hdr_body_0 ‖ sig_0) ‖ … ‖ (hdr_body_{k-1} ‖ sig_{k-1})
//   C18.assoc-len     the reported length is the number of bytes yielded
// Bound: 3 entries, every blob <= 2 symbolic bytes, entries symbolic in (local, mtu) so that
// value-equal (duplicated) entries are part of the input space.

fn blob() -> (Vec<u8>, [u8; 2], usize) {
    let n: usize = kani::any();
    kani::assume(n <= 2);
    let b: [u8; 2] = kani::any();
    (b[..n].to_vec(), b, n)
}

fn small_entry() -> AsEntry {
    AsEntry {
        local: IsdAsn(kani::any()),
        next: IsdAsn(0),
        mtu: kani::any(),
        hop_entry: HopEntry {
            ingress_mtu: 0,
            hop_field: SegmentHopField { expiration_units: 0, cons_ingress: 0, cons_egress: 0, mac: HopFieldMac([0; 6]) },
        },
        peer_entries: Vec::new(),
        extensions: Vec::new(),
        unsigned_extensions: Vec::new(),
    }
}

#[kani::proof]
#[kani::unwind(9)]
fn c18_associated_data_prefix() {
    const N: usize = 3;
    let (info_enc, info_b, info_n) = blob();
    let mut exp = [0u8; 2 + 4 * N];
    let mut exp_len = [0usize; N + 1]; // exp_len[k] = length of the associated data of entry k
    let mut pos = 0;
    for i in 0..2 {
        if i < info_n {
            exp[pos] = info_b[i];
            pos += 1;
        }
    }
    exp_len[0] = pos;
    let mut as_entries = Vec::with_capacity(4);
    for k in 0..N {
        let (hb, hb_b, hb_n) = blob();
        let (sig, sig_b, sig_n) = blob();
        for i in 0..2 {
            if i < hb_n {
                exp[pos] = hb_b[i];
                pos += 1;
            }
        }
        for i in 0..2 {
            if i < sig_n {
                exp[pos] = sig_b[i];
                pos += 1;
            }
        }
        exp_len[k + 1] = pos;
        as_entries.push(SignedAsEntry { entry: small_entry(), signed: SignedMessage { header_and_body: hb, signature: sig } });
    }
    let seg = PathSegment::<SignedAsEntry> {
        info: SegmentInfo { timestamp: kani::any(), segment_id: kani::any(), encoded: info_enc },
        as_entries,
    };
    let k: usize = kani::any();
    kani::assume(k < N);
    let (len, it) = seg.as_entries[k].entry.associated_data(&seg);
    let mut got = [0u8; 2 + 4 * N];
    let mut gpos = 0;
    for sl in it {
        for &b in sl {
            got[gpos] = b;
            gpos += 1;
        }
    }
    assert!(gpos == exp_len[k], "C18.assoc-prefix: associated data of entry k covers the info and exactly the k preceding signed entries");
    assert!(len == gpos, "C18.assoc-len: reported length equals the number of bytes yielded");
    let j: usize = kani::any();
    kani::assume(j < gpos);
    assert!(got[j] == exp[j], "C18.assoc-prefix: associated data bytes are info ‖ (hdr_body_i ‖ sig_i) for i < k, in order");
    kani::cover!(k == 2 && gpos == 10, "last entry, all blobs full");
    kani::cover!(k == 0 && gpos == 0, "first entry, empty info");
    kani::cover!(k == 2 && seg.as_entries[2].entry == seg.as_entries[1].entry, "duplicated entry value");
}
