#!/usr/bin/env python3
"""Runner for the contract-based checks (see DESIGN.md section 2).

check <Cxx> [--tier quick|thorough] [--jobs N] [--keep]

exit 0  every obligation generated from /repo's current tree was discharged
exit 1  at least one obligation is violated and not listed in known_findings.json
        (a line `VIOLATION property=<id> replay=<path>` is printed for each)
exit 2  undecided: lost anchor, compile error, unwinding failure, timeout, OOM, vacuity
"""
import argparse
import json
import os
import re
import shutil
import subprocess
import sys
import time

VERIF = os.path.dirname(os.path.dirname(os.path.abspath(__file__)))
REPO = os.environ.get("VERIF_REPO", "/repo")
CACHE = os.environ.get("VERIF_CACHE", os.path.join(VERIF, ".cache"))
KANI_TARGET = os.environ.get("VERIF_KANI_TARGET", os.path.join(CACHE, "kani"))
EVIDENCE_DIR = os.environ.get("VERIF_EVIDENCE_DIR", os.path.join(VERIF, "evidence"))
REPLAY_DIR = os.environ.get("VERIF_REPLAY_DIR", os.path.join(VERIF, "replays"))
sys.path.insert(0, os.path.join(VERIF, "lib"))

import registry  # noqa: E402
import verus_engine  # noqa: E402

ASSUME_PATTERNS = [
    r"kani::assume\(", r"#\[kani::stub\(", r"#\[kani::stub_verified\(", r"external_body",
    r"assume_specification", r"\badmit\(", r"\bassume\(",
]


def log(*a):
    print(*a, flush=True)


def read(path):
    with open(path, encoding="utf-8", errors="replace") as f:
        return f.read()


# ----------------------------------------------------------------------------------------------
# anchors / assumption scan
# ----------------------------------------------------------------------------------------------

def anchor_scan(unit):
    """Every function under contract must still be present; the hook line must be there."""
    lost = []
    for relfile, needles in unit.get("anchors", []):
        p = os.path.join(REPO, relfile)
        if not os.path.exists(p):
            lost.append(f"{relfile}: file missing")
            continue
        text = read(p)
        for n in needles:
            if isinstance(n, str):
                pat = r"\bfn\s+" + re.escape(n) + r"\b" if re.fullmatch(r"\w+", n) else re.escape(n)
            else:
                pat = n.pattern
            if not re.search(pat, text):
                lost.append(f"{relfile}: anchor `{n}` not found")
    for relfile, needle in unit.get("hooks", []):
        p = os.path.join(REPO, relfile)
        if not os.path.exists(p) or needle not in read(p):
            lost.append(f"{relfile}: hook `{needle}` not found")
    return lost


def assumption_scan(files):
    found = []
    for f in files:
        if not os.path.exists(f):
            continue
        for ln, line in enumerate(read(f).splitlines(), 1):
            s = line.strip()
            if s.startswith("//"):
                continue
            for pat in ASSUME_PATTERNS:
                if re.search(pat, s):
                    found.append(f"{os.path.relpath(f, VERIF)}:{ln}: {s[:160]}")
                    break
    return found


# ----------------------------------------------------------------------------------------------
# Kani engine
# ----------------------------------------------------------------------------------------------

def kani_cmd(unit, harnesses, export_json, jobs, timeout_s, extra=None):
    cmd = ["cargo", "kani", "--target-dir", KANI_TARGET, "-Z", "unstable-options",
           "-Z", "function-contracts", "-Z", "stubbing"]
    for z in unit.get("z_flags", []):
        cmd += ["-Z", z]
    cmd += ["--harness-timeout", f"{timeout_s}s"]
    if export_json:
        cmd += ["--export-json", export_json]
    if extra:
        cmd += extra
    else:
        cmd += ["--output-format=terse", "-j", str(jobs)]
        if os.environ.get("VERIF_FAIL_FAST"):
            cmd += ["--fail-fast"]  # seeded-change runs only: stop at the first failing harness
    cmd += ["--exact"]
    for h in harnesses:
        cmd += ["--harness", h.get("_full") or (unit["mod_path"] + "::" + h["name"])]
    return cmd


def run_kani_unit(unit, harnesses, jobs, workdir):
    """Returns (results: {harness_name: dict}, raw_log, cmd_str, compile_failed)."""
    crate_dir = os.path.join(REPO, unit["crate_dir"])
    export = os.path.join(workdir, f"kani-{unit['id']}.json")
    if os.path.exists(export):
        os.remove(export)
    tmo = max(h.get("timeout", 900) for h in harnesses)
    cmd = kani_cmd(unit, harnesses, export, jobs, tmo)
    env = dict(os.environ, CARGO_NET_OFFLINE="true", CARGO_TERM_COLOR="never")
    t0 = time.time()
    # overall limit: the harness timeouts in waves of `jobs`, plus build time
    waves = (len(harnesses) + jobs - 1) // jobs
    overall = 1800 + tmo * waves
    logp = os.path.join(workdir, f"kani-{unit['id']}.log")
    timed_out = False
    with open(logp, "w") as lf:  # streamed, so a long unit can be followed with tail -f
        proc = subprocess.Popen(cmd, cwd=crate_dir, env=env, stdout=lf, stderr=subprocess.STDOUT,
                                start_new_session=True)
        try:
            proc.wait(timeout=overall)
        except subprocess.TimeoutExpired:
            timed_out = True
            try:
                os.killpg(proc.pid, 15)
            except OSError:
                pass
            proc.wait()
    out = read(logp)
    if timed_out:
        out += "\n[vcheck] overall timeout\n"
    wall = time.time() - t0
    results = {}
    if not os.path.exists(export):
        return results, out, " ".join(cmd), True, wall
    data = json.load(open(export))
    stats = {c["harness_id"]: c.get("cbmc_stats", {}) for c in data.get("cbmc", [])}
    errs = {e["harness_id"]: e for e in data.get("error_details", [])}
    for r in data.get("verification_results", {}).get("results", []):
        hid = r["harness_id"]
        name = hid.split("::")[-1]
        results[name] = {
            "id": hid, "status": r.get("status"), "duration_ms": r.get("duration_ms", 0),
            "checks": r.get("checks", []) or [], "stats": stats.get(hid, {}),
            "error": errs.get(hid, {}),
        }
    data["tools"]["_"] = None
    results["__tools__"] = data.get("tools", {})
    return results, out, " ".join(cmd), False, wall


def is_user_check(c, unit):
    f = (c.get("location") or {}).get("file", "") or ""
    return f.startswith(os.path.join(VERIF, "kani")) or f.startswith(os.path.join(VERIF, "verus"))


def classify(hres, unit):
    """-> dict(kind=ok|violated|undecided|vacuous, failed=[checks], reason=str, counts)"""
    checks = hres["checks"]
    n_total = len(checks)
    failed = [c for c in checks if c.get("status") == "Failure"]
    undet = [c for c in checks if c.get("status") in ("Undetermined", "SolverError")]
    covers = [c for c in checks if c.get("category") == "cover"]
    cov_bad = [c for c in covers if c.get("status") != "Satisfied"]
    passed = [c for c in checks if c.get("status") in ("Success", "Unreachable", "Satisfied")]
    user_ok = [c for c in checks if c.get("status") == "Success" and is_user_check(c, unit)
               and c.get("category") != "cover"]
    out = {"total": n_total, "passed": len(passed), "failed": failed, "covers": len(covers),
           "covers_bad": cov_bad, "user_ok": user_ok, "kind": "ok", "reason": ""}
    if hres["status"] != "Success" and n_total == 0:
        out["kind"] = "undecided"
        out["reason"] = "no result: " + json.dumps(hres.get("error", {}))
        return out
    tool_limit = [c for c in failed if c.get("category") in ("unwinding", "unsupported_construct")
                  or "unwinding assertion" in (c.get("description") or "")]
    real = [c for c in failed if c not in tool_limit]
    # A reachable unsupported construct (foreign function, inline asm, ...) makes every other
    # verdict of the harness unreliable: Kani itself reports such a run as undetermined.
    unsupported = [c for c in tool_limit if c.get("category") == "unsupported_construct"]
    if real and not unsupported:
        out["kind"] = "violated"
        out["failed"] = real
        return out
    if tool_limit or undet:
        out["kind"] = "undecided"
        out["reason"] = "tool limit: " + "; ".join(
            sorted({(c.get("category") or "") + ":" + (c.get("description") or "")[:80]
                    for c in tool_limit + undet}))[:400]
        return out
    if n_total == 0:
        out["kind"] = "vacuous"
        out["reason"] = "zero obligations generated"
        return out
    if cov_bad:
        out["kind"] = "vacuous"
        out["reason"] = "cover not satisfied: " + "; ".join(
            (c.get("description") or "")[:80] for c in cov_bad)
        return out
    if not user_ok:
        out["kind"] = "vacuous"
        out["reason"] = "no reachable contract assertion in the harness"
        return out
    return out


def tag_of(desc):
    m = re.search(r"\b(C\d\d\.[A-Za-z0-9_\-]+)", desc or "")
    return m.group(1) if m else None


def playback(unit, h, prop, failed, workdir, gen_timeout=2400, run_timeout=3600):
    """Obtain concrete inputs for a violated harness and replay them on the real code.
    Returns (replay_path, reproduced: bool)."""
    os.makedirs(REPLAY_DIR, exist_ok=True)
    rp = os.path.join(REPLAY_DIR, f"{prop}-{h['name']}.rs")
    crate_dir = os.path.join(REPO, unit["crate_dir"])
    env = dict(os.environ, CARGO_NET_OFFLINE="true", CARGO_TERM_COLOR="never")
    cmd = kani_cmd(unit, [h], None, 1, h.get("timeout", 900),
                   extra=["-Z", "concrete-playback", "--concrete-playback=print",
                          "--output-format=terse"])
    test_src, out = "", ""
    try:
        if gen_timeout <= 0:
            raise subprocess.TimeoutExpired(cmd, 0)
        p = subprocess.run(cmd, cwd=crate_dir, env=env, stdout=subprocess.PIPE,
                           stderr=subprocess.STDOUT, text=True, timeout=gen_timeout)
        out = p.stdout
        m = re.search(r"```\n(.*?)```", out, re.S)
        if m:
            test_src = m.group(1)
    except subprocess.TimeoutExpired:
        out = ("[vcheck] concrete-playback generation skipped or timed out (time budget of the quick tier); "
               "run the thorough tier for a concrete input")
        subprocess.run(["pkill", "-f", "concrete-playback=print"])
    lines = [f"// REPLAY property={prop} harness={unit['mod_path']}::{h['name']}",
             f"// module under contract: {unit.get('module', '')}",
             "// failed obligations (verifier: Kani/CBMC):"]
    for c in failed:
        loc = c.get("location") or {}
        lines.append(f"//   [{c.get('category')}] {c.get('description')}  at {loc.get('file')}:{loc.get('line')}"
                     f" in {c.get('function')}")
    reproduced = False
    if test_src:
        lines.append("// concrete inputs found by the verifier; the test below is appended to the harness")
        lines.append("// module and run against the real crate with `cargo kani playback`:")
        mt = re.search(r"fn\s+(kani_concrete_playback_\w+)", test_src)
        tname = mt.group(1) if mt else None
        mod_file = unit.get("module")
        if tname and mod_file and os.path.exists(mod_file) and run_timeout <= 0:
            lines.append("// replay on the real code: NOT executed in this run (time budget of the quick tier); "
                         "run the thorough tier, or append the test to the harness module and run `cargo kani playback`")
        elif tname and mod_file and os.path.exists(mod_file):
            bak = mod_file + ".vcheck-bak"
            shutil.copyfile(mod_file, bak)
            try:
                with open(mod_file, "a") as f:
                    f.write("\n" + test_src + "\n")
                pc = ["cargo", "kani", "playback", "-Z", "concrete-playback", "--", tname]
                penv = dict(env, CARGO_TARGET_DIR=os.path.join(CACHE, "kani-playback"))
                pp = subprocess.run(pc, cwd=crate_dir, env=penv, stdout=subprocess.PIPE,
                                    stderr=subprocess.STDOUT, text=True, timeout=run_timeout)
                pout = pp.stdout
                reproduced = ("test result: FAILED" in pout) or ("panicked at" in pout and pp.returncode != 0)
                lines.append(f"// replay on the real code: {'REPRODUCED (test panics)' if reproduced else 'did not reproduce'}")
                tail = "\n".join("//   " + l for l in pout.splitlines()[-25:])
                lines.append(tail)
            except subprocess.TimeoutExpired:
                lines.append("// replay on the real code: timed out")
            finally:
                shutil.move(bak, mod_file)
        lines.append(test_src)
    else:
        lines.append("// the verifier produced no concrete input for this obligation (no-failing-input-found)")
        lines.append("// verifier output tail:")
        lines += ["//   " + l for l in out.splitlines()[-40:]]
    with open(rp, "w") as f:
        f.write("\n".join(lines) + "\n")
    return rp, reproduced


# ----------------------------------------------------------------------------------------------
# main
# ----------------------------------------------------------------------------------------------

def load_known():
    p = os.path.join(VERIF, "known_findings.json")
    if not os.path.exists(p):
        return {"findings": [], "fixed": []}
    return json.load(open(p))


def main():
    ap = argparse.ArgumentParser()
    ap.add_argument("prop")
    ap.add_argument("--tier", default=os.environ.get("VERIF_TIER", "quick"), choices=["quick", "thorough"])
    ap.add_argument("--jobs", type=int, default=int(os.environ.get("VERIF_JOBS", "8")))
    ap.add_argument("--only", default=None, help="regex on harness names (debugging; no evidence written)")
    ap.add_argument("--no-replay", action="store_true")
    ap.add_argument("--experimental", action="store_true", help="also run tier=experimental harnesses")
    args = ap.parse_args()
    prop = args.prop
    if prop not in registry.PROPS:
        log(f"unknown or not-applicable property {prop}")
        return 2
    P = registry.PROPS[prop]
    seed = int(os.environ.get("VERIF_SEED", "0") or 0)
    t_start = time.time()
    workdir = os.path.join(CACHE, "runs", prop)
    os.makedirs(workdir, exist_ok=True)
    known = load_known()
    kf = [k for k in known.get("findings", []) if k["property"] == prop]

    undecided, violations, kf_lines = [], [], []
    ev_harness, samples, assumptions, fns_under_contract = [], [], [], []
    obligations = discharged = 0
    n_eval = 0
    distinct = set()
    solver_s = 0.0
    cmds = []
    all_P = True
    bounds = []
    tools = {}
    group_results = {}

    for unit in P["units"]:
        lost = anchor_scan(unit)
        if lost:
            for l in lost:
                log(f"UNDECIDED property={prop} lost-anchor {l}")
            undecided.append("lost anchor: " + "; ".join(lost))
            continue
        fns_under_contract += unit.get("functions", [])
        if unit["engine"] == "verus" and args.only and not re.search(args.only, unit["id"]):
            continue
        if unit["engine"] == "verus":
            r = verus_engine.run_unit(unit, prop, args.tier, workdir, REPO, VERIF)
            cmds.append(r["cmd"])
            assumptions += r["assumptions"]
            obligations += r["obligations"]
            discharged += r["discharged"]
            solver_s += r["solver_s"]
            n_eval += 1
            for s in r["samples"]:
                samples.append(s)
            for d in r["distinct"]:
                distinct.add(d)
            ev_harness.append(r["evidence"])
            if r["kind"] == "undecided":
                undecided.append(r["reason"])
                log(f"UNDECIDED property={prop} unit={unit['id']} {r['reason']}")
            elif r["kind"] == "violated":
                violations.append((unit, {"name": unit["id"]}, r["failed"], r["replay"], False))
            tools["verus"] = r.get("version")
            continue

        # tier "experimental" = written but known not to discharge within any practical limit here
        # (listed under not_decided); never run by the registered commands.
        wanted = ("quick", "thorough") if args.tier == "thorough" else ("quick",)
        if args.experimental:
            wanted = wanted + ("experimental",)
        hs = [h for h in unit["harnesses"] if h.get("tier", "quick") in wanted]
        if args.only:
            hs = [h for h in hs if re.search(args.only, h["name"])]
        if not hs:
            continue
        assumptions += assumption_scan([unit["module"]] + unit.get("extra_files", []))
        # All contract modules of one crate are verified by ONE cargo kani invocation (their harnesses
        # then run in parallel); the result is shared by the units of that crate.
        gkey = unit["crate_dir"]
        if gkey not in group_results:
            g_units, g_hs, g_flags = [], [], []
            for u2 in P["units"]:
                if u2["engine"] != "kani" or u2["crate_dir"] != gkey or anchor_scan(u2):
                    continue
                hs2 = [h for h in u2["harnesses"] if h.get("tier", "quick") in wanted]
                if args.only:
                    hs2 = [h for h in hs2 if re.search(args.only, h["name"])]
                for h in hs2:
                    h2 = dict(h)
                    h2["_full"] = u2["mod_path"] + "::" + h["name"]
                    g_hs.append(h2)
                g_flags += u2.get("z_flags", [])
                g_units.append(u2["id"])
            g_unit = dict(unit, id="+".join(g_units), z_flags=sorted(set(g_flags)))
            group_results[gkey] = run_kani_unit(g_unit, g_hs, args.jobs, workdir)
            cmds.append(group_results[gkey][2])
        results, raw, cmd, compile_failed, wall = group_results[gkey]
        results = dict(results)
        tools.update({k: v for k, v in results.pop("__tools__", {}).items() if isinstance(v, str)})
        if compile_failed:
            tail = "\n".join(raw.splitlines()[-40:])
            log(tail)
            log(f"UNDECIDED property={prop} unit={unit['id']} build failed or no verifier output")
            undecided.append(f"unit {unit['id']}: build failed / no verifier output")
            continue
        for h in hs:
            n_eval += 1
            if h.get("cls", "B") != "P":
                all_P = False
                bounds.append(f"{h['name']}: {h.get('bound', 'bounded')}")
            hres = results.get(h["name"])
            if hres is None and os.environ.get("VERIF_FAIL_FAST"):
                continue
            if hres is None:
                undecided.append(f"{h['name']}: harness not found in verifier output")
                log(f"UNDECIDED property={prop} harness={h['name']} not found (renamed or cfg'd out)")
                continue
            c = classify(hres, unit)
            obligations += c["total"]
            st = hres.get("stats") or {}
            hs_solver = float(st.get("runtime_decision_procedure_s") or 0.0)
            solver_s += hs_solver
            ev = {"harness": hres["id"], "class": h.get("cls", "B"), "bound": h.get("bound"),
                  "clause": h.get("what"), "checks": c["total"], "passed": c["passed"],
                  "covers": c["covers"], "kind": c["kind"], "verifier_time_s": hres["duration_ms"] / 1000.0,
                  "solver_time_s": hs_solver, "backend": "Kani 0.68 / CBMC 6.11 / CaDiCaL"}
            is_kf_harness = h.get("known_finding")
            if c["kind"] == "ok":
                discharged += c["passed"]
                for u in c["user_ok"]:
                    loc = u.get("location") or {}
                    distinct.add((loc.get("file"), loc.get("line"), u.get("description")))
                if len(samples) < 12:
                    tagged = [u for u in c["user_ok"] if tag_of(u.get("description"))]
                    seen_desc = set()
                    picks = []
                    for u in tagged + c["user_ok"]:
                        if u.get("description") not in seen_desc:
                            seen_desc.add(u.get("description"))
                            picks.append(u)
                    for u in picks[:2]:
                        samples.append({"harness": h["name"], "obligation": u.get("description"),
                                        "status": "discharged", "class": h.get("cls", "B")})
                if is_kf_harness:
                    log(f"note: known finding {is_kf_harness} no longer reproduces (harness {h['name']} verified)")
                log(f"ok   {h['name']}: {c['passed']}/{c['total']} checks, {c['covers']} covers, "
                    f"{hres['duration_ms'] / 1000.0:.1f}s [{h.get('cls', 'B')}]")
            elif c["kind"] == "violated":
                discharged += c["passed"]
                descs = [f"{x.get('description')}" for x in c["failed"]]
                matched = None
                if is_kf_harness:
                    ent = [k for k in kf if k["id"] == is_kf_harness]
                    if ent:
                        tags = ent[0].get("obligations", [])
                        if all(any(t in (d or "") for t in tags) for d in descs):
                            matched = ent[0]
                if matched:
                    kf_lines.append(f"KNOWN-FINDING: property={prop} {matched['id']}: {matched['what']}")
                    ev["kind"] = "known-finding"
                else:
                    violations.append((unit, h, c["failed"], None, True))
                log(f"FAIL {h['name']}: " + " | ".join(descs)[:600])
            else:
                discharged += c["passed"]
                undecided.append(f"{h['name']}: {c['kind']}: {c['reason']}")
                log(f"UNDECIDED property={prop} harness={h['name']} {c['kind']}: {c['reason']}")
            ev_harness.append(ev)

    # replays + VIOLATION lines
    vio_lines = []
    for unit, h, failed, replay, is_kani in violations:
        if is_kani:
            if args.no_replay:
                os.makedirs(REPLAY_DIR, exist_ok=True)
                replay, rep = os.path.join(REPLAY_DIR, f"{prop}-{h['name']}.rs"), False
                with open(replay, "w") as f:
                    f.write(f"// REPLAY property={prop} harness={h['name']} (replay skipped)\n" +
                            "\n".join("// " + (c.get("description") or "") for c in failed) + "\n")
            else:
                # quick tier: the whole check has to stay inside ~15 min, so concrete-playback
                # generation gets what is left and the replay run only happens if enough remains
                if args.tier == "thorough":
                    gen_t, run_t = 2400, 3600
                else:
                    left = 840 - (time.time() - t_start)
                    gen_t = int(max(0, min(300, left - 60)))
                    run_t = 400 if left - gen_t > 520 else 0
                replay, rep = playback(unit, h, prop, failed, workdir, gen_t, run_t)
            suffix = "" if rep else " no-failing-input-found"
        else:
            suffix = " no-failing-input-found"
        names = "; ".join(sorted({(c.get("description") or "")[:100] for c in failed}))[:400]
        vio_lines.append(f"VIOLATION property={prop} replay={replay} obligation=[{names}]{suffix}")

    wall = time.time() - t_start
    # The level is the one registered for the property (lib/units/Cxx.py); bounded stand-ins are
    # listed separately in coverage.bounded_stand_ins and are never counted as proved.
    level = P.get("level", "model_checking")
    trusted = ["Kani 0.68.0 (rustc front end, MIR->goto translation)", "CBMC 6.11.0 + CaDiCaL",
               "Kani's models of alloc/memcpy/std collections"] + P.get("trusted", [])
    if any(u["engine"] == "verus" for u in P["units"]):
        trusted += ["Verus 0.2026.09.13 + Z3", "vstd specifications of std (Vec, slice)"]
    evidence = {
        "property_id": prop, "tier": args.tier, "seed": seed, "level": level,
        "coverage": {
            "obligations": obligations, "discharged": discharged,
            "checker_cmd": " && ".join(cmds) if cmds else "(none run)",
            "trusted_base": trusted,
            "evaluations": n_eval,
            "distinct_nontrivial": len(distinct),
            "rule": "evaluations = harnesses / verifier units run from /repo's current tree; distinct_nontrivial = "
                    "distinct contract obligations (assertion site + text in the /verif contract modules, or Verus "
                    "function obligations) that were reachable and discharged in this run",
            "samples": samples[:12] if samples else [{"note": "no obligation discharged in this run"}],
            "exhaustive": bool(all_P and not undecided),
            "proved_class_harnesses": sum(1 for e in ev_harness if e.get("class") == "P" and e.get("kind") == "ok"),
            "bounded_harnesses": sum(1 for e in ev_harness if e.get("class") == "B"),
            "functions_under_contract": sorted(set(fns_under_contract)),
            "harnesses": ev_harness,
            "bounded_stand_ins": bounds,
            "solver_time_s": round(solver_s, 3),
            "undecided": undecided,
            "claimed_clauses": P.get("clauses", []),
            "not_decided": P.get("not_decided", []),
            "tools": tools,
            "explanation": P.get("explanation") or ("Claimed clauses: " + "; ".join(P.get("clauses", [])))[:4000],
        },
        "assumptions": sorted(set(P.get("assumptions", []) + assumptions)),
        "wall_s": round(wall, 2),
        "violations": len(vio_lines),
    }
    if not args.only:
        os.makedirs(EVIDENCE_DIR, exist_ok=True)
        with open(os.path.join(EVIDENCE_DIR, f"{prop}.json"), "w") as f:
            json.dump(evidence, f, indent=1)
    for l in kf_lines:
        log(l)
    for l in vio_lines:
        log(l)
    log(f"summary property={prop} tier={args.tier} harnesses={n_eval} obligations={obligations} "
        f"discharged={discharged} violations={len(vio_lines)} known={len(kf_lines)} "
        f"undecided={len(undecided)} wall={wall:.0f}s level={level}")
    if vio_lines:
        return 1
    if undecided:
        return 2
    return 0


if __name__ == "__main__":
    sys.exit(main())
