#!/usr/bin/env python3
"""Write /verif/seeded/README.md: one row per confirmed seeded change with the outcome of the
property's check (latest run in seeded/RESULTS.jsonl)."""
import glob
import json
import os
import re

VERIF = os.path.dirname(os.path.dirname(os.path.abspath(__file__)))


def main():
    res = {}
    p = os.path.join(VERIF, "seeded", "RESULTS.jsonl")
    if os.path.exists(p):
        for l in open(p):
            r = json.loads(l)
            res.setdefault(r["seed"], []).append(r)
    notes = {}
    np_ = os.path.join(VERIF, "seeded", "NOTES.json")
    if os.path.exists(np_):
        notes = json.load(open(np_))
    rows = []
    for d in sorted(glob.glob(os.path.join(VERIF, "seeded", "C*-*"))):
        name = os.path.basename(d)
        try:
            meta = json.load(open(os.path.join(d, "meta.json")))
        except Exception:  # noqa: BLE001
            continue
        runs = res.get(name, [])
        last = runs[-1] if runs else None
        first = runs[0] if runs else None

        def outcome(r):
            if r is None:
                return "not run"
            if r["caught"]:
                tags = sorted({t for v in r["violations"] for t in re.findall(r"C\d\d\.[A-Za-z0-9_\-]+(?:\.[a-z]+)?", v)})
                obl = ", ".join(tags) if tags else "panic/overflow/pointer check"
                return f"**caught** ({obl})"
            if r["exit"] == 2:
                return "undecided (exit 2): " + "; ".join(u[:80] for u in r["undecided"][:2])
            return "**missed** (exit 0)"
        summ = re.sub(r"\s+", " ", meta.get("summary", ""))[:260]
        needs = re.sub(r"\s+", " ", meta.get("needs", ""))[:220]
        line = f"| {name} | {meta.get('property')} | {summ} | {needs} | {outcome(first)}"
        if last is not None and last is not first:
            line += f" → latest run: {outcome(last)}"
        line += f" | {notes.get(name, '')} |"
        rows.append(line)
    out = ["# Seeded property-breaking changes",
           "",
           "Written by fresh sub-agents that were given only the property text and a scratch worktree (nothing from",
           "/verif). Each was kept only after `bin/seedconfirm` showed: demonstration passes at HEAD, the touched crate's",
           "existing tests pass with the change, the demonstration fails with the change. `bin/seedtest` then applied the",
           "change (scratch worktree of /repo HEAD, or /repo itself), ran the property's quick check and undid it;",
           "all runs are in RESULTS.jsonl, per-run logs in each directory.",
           "",
           "| id | property | change | needs | outcome of the check | note |",
           "|---|---|---|---|---|---|"] + rows
    with open(os.path.join(VERIF, "seeded", "README.md"), "w") as f:
        f.write("\n".join(out) + "\n")
    print(f"seeded/README.md: {len(rows)} changes")


if __name__ == "__main__":
    main()
