from registry import H

LAYOUT = "crates/libs/sciparse/src/proto/payload/scmp/layout.rs"
MODEL = "crates/libs/sciparse/src/proto/payload/scmp/model.rs"
ECHO = "crates/scion-stack/src/stack/scmp_handler/echo.rs"
ERROR = "crates/scion-stack/src/stack/scmp_handler/error.rs"

PROP = {
    "level": "model_checking",
    "clauses": [
        "size budget (proved class, loop-free, off over all of usize, hdr over 0..=1020): for each of the five SCMP error "
        "layouts from_offending_packet_length(off, hdr): hdr + size_bytes() <= 1232, quoted length <= off and == off when it "
        "fits, quote range = [fixed header, size)",
        "ScionScmpPacket::new(..error message..) + try_encode_to_vec for each error kind, any v4/v6 addresses, empty path: "
        "length <= 1232, NextHdr/PayloadLen/type consistent, quote = prefix of the offending packet (whole when it fits), "
        "RFC 1071 checksum over pseudo header + message verifies (spec written in the harness); whole-packet size budget "
        "for offenders of any length <= 9216",
        "DefaultEchoHandler::handle: Some <=> SCMP (NextHdr 202) EchoRequest (type 128, >= 8 B) whose addresses decode and "
        "whose path reverses; reply = EchoReply(129/0) with equal id/seq/data, src/dst swapped, reversed path; every other "
        "SCMP type/code, truncated or non-SCMP input => None",
        "ScmpErrorHandler::handle returns None for every input (no reply to SCMP errors)",
    ],
    "not_decided": [
        "delivery of received SCMP errors to application receivers without affecting datagram delivery (async socket "
        "receive loop, channels)",
        "byte-level prefix/checksum for quotes longer than the harness bound (16 B / 6 B); truncating quotes (offender > "
        "~1170 B) are covered by the size contracts only",
        "echo requests over standard paths (path reversal of the model; see C12) and pocketscion's maybe_create_scmp_reply "
        "(shares ScionScmpPacket::new + encoders, not driven separately)",
    ],
    "assumptions": [
        "echo/error handler inputs are valid ScionRawPacketView values (assume(try_from_slice(d).is_ok()) = type invariant "
        "of the argument)",
    ],
    "trusted": [],
    "units": [
        {
            "id": "sciparse-scmp-layout", "engine": "kani", "package": "sciparse",
            "crate_dir": "crates/libs/sciparse",
            "module": "/verif/kani/sciparse/c14_scmp_layout.rs",
            "mod_path": "proto::payload::scmp::layout::verif_c14_scmp_layout",
            "hooks": [(LAYOUT, "mod verif_c14_scmp_layout;")],
            "anchors": [(LAYOUT, ["from_offending_packet_length", "offending_packet_rng",
                                  "pub const SCMP_ERROR_MAX_PACKET_SIZE"])],
            "functions": ["Scmp{DestinationUnreachable,PacketTooBig,ParameterProblem,ExternalInterfaceDown,"
                          "InternalConnectivityDown}Layout::from_offending_packet_length"],
            "harnesses": [
                H("c14_budget_dest_unreachable", "P", what="budget contract, DestinationUnreachable layout", timeout=300),
                H("c14_budget_packet_too_big", "P", what="budget contract, PacketTooBig layout", timeout=300),
                H("c14_budget_parameter_problem", "P", what="budget contract, ParameterProblem layout", timeout=300),
                H("c14_budget_ext_if_down", "P", what="budget contract, ExternalInterfaceDown layout", timeout=300),
                H("c14_budget_int_conn_down", "P", what="budget contract, InternalConnectivityDown layout", timeout=300),
            ],
        },
        {
            "id": "sciparse-scmp-model", "engine": "kani", "package": "sciparse",
            "crate_dir": "crates/libs/sciparse",
            "module": "/verif/kani/sciparse/c14_scmp_model.rs",
            "mod_path": "proto::payload::scmp::model::verif_c14_scmp_model",
            "hooks": [(MODEL, "mod verif_c14_scmp_model;")],
            "anchors": [(MODEL, ["encode_unchecked", "required_size", "ChecksumDigest::with_pseudoheader("])],
            "functions": ["ScionScmpPacket::new", "ScionPacket::try_encode_to_vec",
                          "<Scmp*Error as PayloadEncode>::encode_unchecked"],
            "harnesses": [],
        },
        {
            "id": "scion-stack-echo", "engine": "kani", "package": "scion-stack",
            "crate_dir": "crates/scion-stack",
            "module": "/verif/kani/scion_stack/c14_echo.rs",
            "mod_path": "stack::scmp_handler::echo::verif_c14_echo",
            "hooks": [(ECHO, "mod verif_c14_echo;")],
            "anchors": [(ECHO, ["try_echo_reply", "handle"])],
            "functions": ["DefaultEchoHandler::handle"],
            "harnesses": [],
        },
        {
            "id": "scion-stack-scmp-error", "engine": "kani", "package": "scion-stack",
            "crate_dir": "crates/scion-stack",
            "module": "/verif/kani/scion_stack/c14_error.rs",
            "mod_path": "stack::scmp_handler::error::verif_c14_error",
            "hooks": [(ERROR, "mod verif_c14_error;")],
            "anchors": [(ERROR, ["handle"])],
            "functions": ["ScmpErrorHandler::handle"],
            "harnesses": [],
        },
    ],
}
