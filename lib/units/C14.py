from registry import H

LAYOUT = "crates/libs/sciparse/src/proto/payload/scmp/layout.rs"
MODEL = "crates/libs/sciparse/src/proto/payload/scmp/model.rs"

PROP = {
    "level": "model_checking",
    "clauses": [
        "size budget (proved class, loop-free, off over all of usize, hdr over 0..=1020): for each of the five SCMP error "
        "layouts from_offending_packet_length(off, hdr): hdr + size_bytes() <= 1232, quoted length <= off and == off when it "
        "fits, quote range = [fixed header, size)",
        "ScionScmpPacket::new(..error message..) for each of the five error kinds, any v4/v6 addresses, empty path, offender of "
        "any length <= 9216: required_size() (= encoded length) <= 1232, quote <= offender and whole offender when it fits; "
        "thorough: encoded ParameterProblem packet bytes (NextHdr/PayloadLen/type consistent, quote = offender bytes)",
    ],
    "not_decided": [
        "delivery of received SCMP errors to application receivers without affecting datagram delivery (async socket "
        "receive loop, channels)",
        "checksum validity by Kani: the c14_cksum_* harnesses (RFC 1071 spec over pseudo header + message, written in "
        "/verif/kani/sciparse/c14_scmp_model.rs) exceed 420-900 s / 10 GB in CBMC (u16 pointer-cast summation in "
        "ChecksumDigest::add_slice + symbolic buffers) and are NOT registered; the checksum defect they target is demonstrated "
        "by a plain cargo test (fixes/scmp-checksum.md). Byte-level quote only for ParameterProblem with a 4-byte offender "
        "(thorough tier); the other four kinds share the macro-generated harnesses, unregistered for cost; truncating quotes "
        "(offender > ~1170 B) are covered by the size contracts only",
        "clauses 3 and 4 (DefaultEchoHandler::handle, ScmpErrorHandler::handle): contract modules are written "
        "(/verif/kani/scion_stack/c14_echo.rs, c14_error.rs) but Kani 0.68 aborts with an internal compiler error "
        "(kani-compiler/src/intrinsics.rs:243, intrinsic signature assertion) while collecting the reachable items of any "
        "harness that calls a handler in crate scion-stack; a trivial harness in the same module compiles. Tool limit: "
        "not registered, not decided",
        "pocketscion's maybe_create_scmp_reply (shares ScionScmpPacket::new + encoders, not driven separately)",
    ],
    "assumptions": [],
    "trusted": [],
    "units": [
        {
            "id": "sciparse-scmp-layout", "engine": "kani", "package": "sciparse",
            "crate_dir": "crates/libs/sciparse",
            "module": "/verif/kani/sciparse/c14_scmp_layout.rs",
            "mod_path": "proto::payload::scmp::layout::verif_c14_scmp_layout",
            "hooks": [(LAYOUT, "mod verif_c14_scmp_layout;")],
            "anchors": [(LAYOUT, ["from_offending_packet_length", "offending_packet_rng",
                                  "pub const SCMP_ERROR_MAX_PACKET_SIZE"])],
            "functions": ["Scmp{DestinationUnreachable,PacketTooBig,ParameterProblem,ExternalInterfaceDown,"
                          "InternalConnectivityDown}Layout::from_offending_packet_length"],
            "harnesses": [
                H("c14_budget_dest_unreachable", "P", what="budget contract, DestinationUnreachable layout", timeout=300),
                H("c14_budget_packet_too_big", "P", what="budget contract, PacketTooBig layout", timeout=300),
                H("c14_budget_parameter_problem", "P", what="budget contract, ParameterProblem layout", timeout=300),
                H("c14_budget_ext_if_down", "P", what="budget contract, ExternalInterfaceDown layout", timeout=300),
                H("c14_budget_int_conn_down", "P", what="budget contract, InternalConnectivityDown layout", timeout=300),
            ],
        },
        {
            "id": "sciparse-scmp-model", "engine": "kani", "package": "sciparse",
            "crate_dir": "crates/libs/sciparse",
            "module": "/verif/kani/sciparse/c14_scmp_model.rs",
            "mod_path": "proto::payload::scmp::model::verif_c14_scmp_model",
            "hooks": [(MODEL, "mod verif_c14_scmp_model;")],
            "anchors": [(MODEL, ["encode_unchecked", "required_size", "ChecksumDigest::with_pseudoheader("])],
            "functions": ["ScionScmpPacket::new", "ScionPacket::try_encode_to_vec",
                          "<Scmp*Error as PayloadEncode>::encode_unchecked"],
            "harnesses": [
                H("c14_model_size_budget_l9216", "B", bound="offender length symbolic 0..=9216 (zero bytes), all 5 kinds, any v4/v6 addresses, empty path",
                  what="whole packet required_size() <= 1232, quote <= offender, whole offender when it fits (loop-free)", timeout=600),
                H("c14_model_parameter_problem_q4", "B", tier="thorough",
                  bound="offender = 4 B symbolic, IPv4->IPv4 addresses (bytes, ISD-AS symbolic), empty path",
                  what="encoded ParameterProblem packet: size, NextHdr/PayloadLen/type/code/pointer, quote = offender bytes", timeout=1800),
            ],
        },
        {
            "id": "pocketscion-local-sim", "engine": "kani", "package": "pocketscion",
            "crate_dir": "crates/pocketscion",
            "module": "/verif/kani/pocketscion/local_sim.rs",
            "mod_path": "network::local::simulator::verif_local_sim",
            "hooks": [("crates/pocketscion/src/network/local/simulator.rs", "mod verif_local_sim;")],
            "anchors": [("crates/pocketscion/src/network/local/simulator.rs", ["maybe_create_scmp_reply"])],
            "functions": ["maybe_create_scmp_reply"],
            "harnesses": [
                H("c14_sim_no_reply_to_scmp_error_or_malformed_n64", "B", tier="experimental", bound="packet <= 64 B (all bytes and length symbolic)",
                  what="simulator: no SCMP reply to an SCMP error message or to a malformed SCMP packet - killed at 18 GB after 22 min", timeout=2400),
            ],
        },
    ],
}
