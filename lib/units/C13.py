from registry import H

STD = "crates/pocketscion/src/network/scion/routing/spec/standard.rs"
SPEC = "crates/pocketscion/src/network/scion/routing/spec.rs"

PROP = {
    "level": "model_checking",
    "clauses": [
        "StandardValidator::validate_segment_change [P]: accepted (arrival link, departure link) pairs == table derived "
        "from the SCION segment-combination rules (up-core, up-down, core-down, up-peer, peer-down = {core->child, "
        "child->core, child->child, child->peer, peer->child} in the crate's link-to orientation); the interfaces looked up "
        "are the travel-direction ingress of the old segment's hop field and the travel-direction egress of the new "
        "segment's hop field; is_up does not matter; error classes",
        "StandardValidator::validate_hop [P]: egress mode Ok <=> egress interface matches /\\ timestamp <= now <= expiry /\\ MAC; "
        "ingress mode Ok => time /\\ MAC, and (internal \\/ ingress matches) /\\ time /\\ MAC => Ok; error classes",
        "StdRoutingLogic::handle_standard_path [B]: ForwardNextHop{e} => e is the travel-direction egress of the processed hop "
        "field, lookup(e) exists and is up, that hop field is unexpired and authentic (SegID accumulator rule), CurrHF "
        "advanced by >= 1 and stays inside the path (=> <= 63 forwarding steps per packet), at a segment change the link "
        "pair is in the table and CurrINF+1; ForwardLocal only at the last hop field; malformed path => packet untouched; "
        "frame: only CurrINF/CurrHF, SegID and hop flag bytes are ever written",
        "arrival interface [B]: a non-error verdict for a packet from an external interface => that interface is the "
        "travel-direction ingress of the hop field the packet arrived with (C13.hop_ingress_owner); a SCION-valid crossover "
        "incl. shortcut is forwarded (C13.xover_accept) -- both failed on the original tree (F-ingress0, F-xover) and were "
        "repaired by fix commits 94e4c4d / 72e80ab",
    ],
    "not_decided": [
        "general AS-step obligations (egress owner, link exists and is up, unexpired+authentic, CurrHF+1 inside the path, "
        "ForwardLocal only at the last hop, malformed => untouched, frame) for handle_standard_path: harnesses c13_step_{first_hop,"
        "last_hop,transit,segchange,seg2_anyidx,seg2x2_anyidx} are written (tier experimental) but did not discharge within 30-120 min",
        "SpecRoutingLogic::route (DESIGN C13.4: ForwardLocal => DstIA == local AS; unsupported path type => Drop): harnesses are "
        "written (/verif/kani/pocketscion/routing_spec.rs, hook `mod verif_routing_spec;` at the end of routing/spec.rs) but "
        "kani-compiler 0.68 panics on them (intrinsics.rs:243 `output.kind() == Int(I32)`), so the unit is not registered; "
        "'ForwardLocal only at the last hop field' is covered at the handle_standard_path level",
        "reference-router equivalence (DESIGN C13.5) as a separate step function: not written (budget); the step obligations "
        "above are the per-verdict halves of it (soundness of Forward/Deliver verdicts, completeness for crossovers only)",
        "error verdict => path bytes unchanged (DESIGN C13.3): does NOT hold and is not a SCION rule -- sciparse commits SegID / "
        "alert flag / CurrHF updates before reporting a validation error (documented there); replaced by the frame clause and "
        "'malformed => untouched'",
        "one-hop paths (onehop.rs): declared unvalidated in the source (TODOs); not under contract",
        "peering paths (F-peer): declared unimplemented in the source; demonstrated by a plain test in the fix notes",
        "simulator.rs next_step loop itself and ScionTopology::scion_link / link up-down mutation histories: trusted; termination "
        "follows from the CurrHF measure proved per step",
        "paths with 3 segments / more than 2 hop fields per segment at the step level",
    ],
    "assumptions": [
        "calculate_hop_mac (AES-CMAC) is stubbed by a deterministic mixing function of all six inputs; the obligations only "
        "use that the MAC is a function of (beta, timestamp, exp_time, cons_ingress, cons_egress, key)",
        "the topology lookup is an arbitrary function u16 -> Option<{link_type,is_up}> with at most 3 distinct answers per step",
    ],
    "trusted": ["ScionTopology::scion_link (HashMap lookup) is represented by a closure with symbolic answers",
                "sciparse StandardPathView::advance_* is executed as is (its own contract is C11)"],
    "units": [
        {
            "id": "pocketscion-routing-standard", "engine": "kani", "package": "pocketscion",
            "crate_dir": "crates/pocketscion",
            "module": "/verif/kani/pocketscion/routing_standard.rs",
            "mod_path": "network::scion::routing::spec::standard::verif_routing_standard",
            "hooks": [(STD, "mod verif_routing_standard;")],
            "anchors": [(STD, ["validate_hop", "validate_segment_change", "handle_standard_path",
                               "standard_path_ingress", "standard_path_egress"])],
            "functions": ["StandardValidator::validate_hop", "StandardValidator::validate_segment_change"],
            "harnesses": [
                H("c13_segchange_table", "P", what="validate_segment_change == SCION table, looked-up interfaces, error classes", timeout=900),
                H("c13_segchange_spec_table_shape", "P", what="rule-derived table == the 5 pairs listed in DESIGN; no valley/core loop", timeout=300),
                H("c13_validate_hop_egress", "P", what="validate_hop egress mode: Ok <=> iface /\\ time /\\ MAC (MAC stubbed)", timeout=900),
                H("c13_validate_hop_ingress", "P", what="validate_hop ingress mode: soundness (time, MAC), completeness, error classes", timeout=900),
            ],
        },
        {
            "id": "pocketscion-routing-step", "engine": "kani", "package": "pocketscion",
            "crate_dir": "crates/pocketscion",
            "module": "/verif/kani/pocketscion/routing_step.rs",
            "mod_path": "network::scion::routing::spec::standard::verif_routing_step",
            "hooks": [(STD, "mod verif_routing_step;"), (STD, "mod verif_routing_standard;")],
            "anchors": [(STD, ["handle_standard_path", "standard_path_ingress", "standard_path_egress",
                               "validate_hop", "validate_segment_change"])],
            "functions": ["StdRoutingLogic::handle_standard_path", "StdRoutingLogic::standard_path_ingress",
                          "StdRoutingLogic::standard_path_egress"],
            "harnesses": [
                H("c13_step_first_hop", "B", tier="experimental", bound="path = 1 segment x 2 hop fields (36 B), CurrHF=0; all other bytes, clock, key, topology answers symbolic", what="AS step at the first hop: egress owner, link exists and is up, CurrHF+1, unexpired+authentic, frame", timeout=7200),
                H("c13_step_last_hop", "B", tier="experimental", bound="path = 1 segment x 2 hop fields (36 B), CurrHF=1", what="AS step at the last hop: ForwardLocal only here, never forwards, unexpired+authentic", timeout=7200),
                H("c13_step_transit", "B", tier="experimental", bound="path = 1 segment x 3 hop fields (48 B), CurrHF=1", what="AS step at a transit hop incl. router alerts", timeout=7200),
                H("c13_step_segchange", "B", tier="experimental", bound="path = 2 segments x 2 hop fields (68 B), CurrINF=0 CurrHF=1", what="AS step with segment change: table holds, both hop fields unexpired, new hop authentic, CurrINF+1", timeout=7200),
                H("c13_step_seg2_anyidx", "B", tier="experimental", bound="path = 1 segment x 2 hop fields (36 B), CurrINF/CurrHF symbolic", what="as above for every (also inconsistent) CurrINF/CurrHF; malformed => drop with untouched packet", timeout=5400),
                H("c13_step_seg2x2_anyidx", "B", tier="experimental", bound="path = 2 segments x 2 hop fields (68 B), CurrINF/CurrHF symbolic", what="as above for every CurrINF/CurrHF", timeout=7200),
                H("c13_step_ingress_owner", "B", bound="path = 1 segment x 2 hop fields (36 B), CurrHF=1 (last hop), MACs ignored, unread bytes (hop field 0, MAC) zero", what="accepted from outside => arriving interface == travel ingress of the arrival hop field [fails on HEAD: F-ingress0]", timeout=3600),
                H("c13_step_xover_sound", "B", bound="path = 2 segments x 2 hop fields (68 B), CurrHF=1, MACs ignored, unread bytes zero", what="a forwarding verdict at a crossover => egress = new segment's egress, both links exist, egress link is up, link-type pair in the table", timeout=3600),
                H("c13_step_xover_accept", "B", bound="path = 2 segments x 2 hop fields (68 B), CurrHF=1, MACs ignored, unread bytes (hop fields 0 and 3, MACs) zero", what="SCION-valid crossover (incl. shortcut) is forwarded over the new segment's egress [fails on HEAD: F-xover]", timeout=3600),
            ],
        },
    ],
}
