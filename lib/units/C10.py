from registry import H

TV = "crates/snap/snap-control/src/server/token_verifier.rs"
V0 = "crates/snap/snap-tokens/src/v0.rs"
V1 = "crates/snap/snap-tokens/src/v1.rs"
LIB = "crates/snap/snap-tokens/src/lib.rs"

PROP = {
    "level": "other",
    "clauses": [
        "AnyClaims::exp_time() (v0 and v1) is total for every u64 `exp` (no SystemTime overflow panic), equals "
        "epoch+exp for every exp up to 9999-12-31T23:59:59Z and is never mapped into the past beyond that",
        "the claims required at the JWT layer (AnyClaims::required_claims) contain `exp` and are required by both "
        "claims versions; v1 additionally requires exp, nbf, aud",
        "[thorough tier: c10_profile, c10_profile_nbf, ~35 min each] build_validation() instantiates the ASSUMED dependency "
        "predicate Accept(profile, key, now, token) with algorithms == [EdDSA], validate_exp, validate_nbf, "
        "validate_aud with aud == {\"snap\"}, required_spec_claims >= AnyClaims::required_claims() (incl. exp), "
        "leeway == 60, reject_tokens_expiring_in_less_than == 0, no iss/sub restriction",
    ],
    "not_decided": [
        "the acceptance predicate itself (jsonwebtoken::decode: base64, serde_json, Ed25519) - assumed dependency contract",
        "key selection by `kid` (async fn verify, JWKS store), untagged-enum version dispatch (serde), "
        "lifetime = exp - now inside the axum handler (api/crpc.rs) - not separately callable",
    ],
    "assumptions": [
        "Accept(profile, key, now, token) as written in the doc comment of /verif/kani/snap_control/token_verifier.rs "
        "is the behaviour of jsonwebtoken 10.x decode()",
        "Validation::set_audience(items) sets aud := Some(set(items)); Validation::set_required_spec_claims(items) sets "
        "required_spec_claims := set(items) (observed at the setter boundary by recorder stubs)",
        "HashSet hash seed (RandomState::new) replaced by a fixed seed in the profile harnesses",
    ],
    "trusted": ["jsonwebtoken 10.4 decode/validate", "serde derive of the claims structs", "std SystemTime arithmetic"],
    "units": [
        {
            "id": "snap-tokens-claims", "engine": "kani", "package": "snap-tokens",
            "crate_dir": "crates/snap/snap-tokens",
            "module": "/verif/kani/snap_tokens/claims.rs",
            "mod_path": "v1::verif_claims",
            "hooks": [(V1, "mod verif_claims;")],
            "anchors": [(V0, ["exp_time", "required_claims"]), (V1, ["exp_time", "required_claims"]),
                        (LIB, ["exp_time", "required_claims"])],
            "functions": ["AnyClaims::exp_time", "v0::SnapTokenClaims::exp_time", "v1::SnapTokenClaims::exp_time",
                          "AnyClaims::required_claims"],
            "harnesses": [
                H("c10_exp_time_total_v0", "P", what="exp_time total and exact for every u64 exp (v0); fails on the "
                  "unfixed tree: F-exp-overflow", timeout=600),
                H("c10_exp_time_total_v1", "P", what="exp_time total and exact for every u64 exp (v1); fails on the "
                  "unfixed tree: F-exp-overflow", timeout=600),
                H("c10_required_claims_common", "P", what="common required claims contain exp and are required by v0 and v1",
                  timeout=600),
            ],
        },
        {
            "id": "snap-control-token-verifier", "engine": "kani", "package": "snap-control",
            "crate_dir": "crates/snap/snap-control",
            "module": "/verif/kani/snap_control/token_verifier.rs",
            "mod_path": "server::token_verifier::verif_token_verifier",
            "hooks": [(TV, "mod verif_token_verifier;")],
            "anchors": [(TV, ["build_validation", "verify"])],
            "functions": ["build_validation"],
            "harnesses": [
                H("c10_profile", "P", tier="thorough", what="validation profile: EdDSA only, exp, audience == {snap}, "
                  "required claims, leeway 60 (constant function; setters observed by recorders); ~35 min",
                  timeout=3600),
                H("c10_profile_nbf", "P", tier="thorough", what="validation profile: validate_nbf is enabled (F-nbf); ~35 min",
                  timeout=3600),
            ],
        },
    ],
}
