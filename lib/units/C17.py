from registry import H

FRAG = "crates/libs/anapaya-edge-tun/src/fragmenting.rs"

PROP = {
    "level": "proof",
    "clauses": [
        "DefragQueue::ingest_frame: inductive step from an ARBITRARY wf queue state and an ARBITRARY frame: "
        "no panic, wf re-established, coupling covered(i)=>R(i) preserved, emitted packet = buffer prefix of the "
        "announced size whose every byte was written by an accepted frame of this packet, queue idle afterwards "
        "(at most once), stream offset attribution",
        "DefragQueue::init: every per-packet field reset; nothing of the previous packet counts as received",
        "Fragmenter::send [bounded stand-in: packets of <= 4 frames, all MTUs]: emits exactly the honest frames (frame j = "
        "data[j*ps..min((j+1)*ps, n)], equal size >= MIN_PAYLOAD, LAST only on the last, ceil(n/ps) frames); the 256-frame "
        "version (complete by operand width) is written but did not finish (tier experimental)",
        "honest completeness step: from any honest partial state an unreceived honest frame is accepted and the "
        "packet is emitted exactly on the last missing frame (any order)",
    ],
    "not_decided": [
        "byte-level copy: the ghost R(i) is updated from the contract of the single "
        "`assembly_buffer[off..off+len].copy_from_slice(fragment)` write (std); symbolic 64 KiB contents exhaust 60 GB in CBMC",
        "Defragmenter::recv / select_queue (slot selection, eviction) with prometheus metrics: not under contract",
    ],
    "assumptions": [
        "ingest_frame writes the assembly buffer only through `self.assembly_buffer[offset..offset+len].copy_from_slice(frame.fragment)` "
        "(single write site, checked textually by the anchor scan) and std's copy_from_slice copies exactly that range",
    ],
    "trusted": ["std <[u8]>::copy_from_slice", "prometheus counters (side effects only)"],
    "units": [
        {
            "id": "edge-tun-fragmenting", "engine": "kani", "package": "anapaya-edge-tun",
            "crate_dir": "crates/libs/anapaya-edge-tun",
            "module": "/verif/kani/anapaya_edge_tun/fragmenting.rs",
            "mod_path": "fragmenting::verif_fragmenting",
            "hooks": [(FRAG, "mod verif_fragmenting;")],
            "anchors": [(FRAG, ["ingest_frame", "init", "select_queue", "recv_fallible", "send",
                                "received_all_frames",
                                "self.assembly_buffer[offset..offset + frame.fragment.len()].copy_from_slice(frame.fragment);"])],
            "functions": ["DefragQueue::ingest_frame", "DefragQueue::init", "DefragQueue::received_all_frames",
                          "Fragmenter::send", "Fragmenter::set_mtu"],
            "harnesses": [
                H("c17_ingest_wf_middle_f0", "P", what="ingest_frame step (middle frame, final size unknown): wf, emission shape", timeout=3600),
                H("c17_ingest_wf_middle_f1", "P", what="ingest_frame step (middle frame, final size known): wf, emission shape, at-most-once", timeout=3600),
                H("c17_ingest_wf_last", "P", what="ingest_frame step (last frame): wf, emission shape, at-most-once", timeout=3600),
                H("c17_ingest_cover_middle_f0", "P", what="coverage coupling, middle frame, final unknown", timeout=3600),
                H("c17_ingest_cover_middle_f1w0", "P", what="coverage coupling + intactness, middle frame, final known, first middle frame", timeout=3600),
                H("c17_ingest_cover_middle_f1w1", "P", what="coverage coupling + intactness, middle frame, final and window known", timeout=3600),
                H("c17_ingest_cover_last_w0", "P", what="coverage coupling, last frame first", timeout=3600),
                H("c17_ingest_cover_last_w1", "P", what="coverage coupling + intactness, last frame after middle frames / duplicate last", timeout=3600),
                H("c17_init_resets", "P", what="init resets per-packet state"),
                H("c17_send_contract_b4", "B", bound="packets of <= 4 frames (n <= 4*(mtu-16)), all MTUs", what="Fragmenter::send emits exactly the honest frames"),
                H("c17_send_contract_full", "P", tier="experimental", what="Fragmenter::send emits exactly the honest frames (loop <= 256 by operand width, unwinding assertions on) - stopped after 110 min / 8.6 GB without a verdict", timeout=14400),
                H("c17_honest_step_mid_f0", "P", what="honest completeness step: middle frame before the last frame", timeout=3600),
                H("c17_honest_step_mid_f1w0", "P", what="honest completeness step: first middle frame after the last frame", timeout=3600),
                H("c17_honest_step_mid_f1w1", "P", what="honest completeness step: further middle frame after the last frame", timeout=3600),
                H("c17_honest_step_last", "P", what="honest completeness step: the last frame", timeout=3600),
            ],
        },
    ],
}
