from registry import H

SOCK = "crates/libs/sciparse/src/scion/address/socket_addr.rs"
HOST = "crates/libs/sciparse/src/scion/address/host_addr.rs"
ISD = "crates/libs/sciparse/src/scion/identifier/isd.rs"
ASN = "crates/libs/sciparse/src/scion/identifier/asn.rs"
IA = "crates/libs/sciparse/src/scion/identifier/isd_asn.rs"

PROP = {
    "level": "model_checking",
    "clauses": [
        "parse_socket_addr::<T> (the bracket-and-port splitter shared by all socket-address parsers), with a harness-side "
        "T: FromStr that accepts a symbolic subset of strings and records the substring it was given: total on every string "
        "<= n bytes; Some((t,p)) => s == '[' + inner + ']:' + port-text, t = parse(inner), p = value(port-text)",
        "Isd / Asn / IsdAsn / ServiceAddr ::from_str: total on every string <= n bytes; accepted <=> string in the documented "
        "language (byte-level spec predicate in the harness) and the value is the one written",
        "value -> Display -> parse is the identity for every Isd (2^16), Asn (2^48: decimal and colon-hex ranges), IsdAsn (2^64), "
        "ServiceAddr (2^16) value; Display driven into a fixed 32-byte fmt::Write sink",
    ],
    "not_decided": [
        "Ipv4Addr/Ipv6Addr text forms (std) and therefore ScionHostAddr/ScionAddr*/ScionSocketAddr* end-to-end: assumed; only the "
        "splitter and the identifier/service leaves are under contract",
        "parse_scion_addr (the `ia,host` splitter in addr.rs) and ip_socket_addr.rs: not under contract in this round",
        "DNS TXT records (scion-stack resolver/txt.rs parse_txt_payload): not under contract in this round",
        "strings longer than the bound n (6 quick / 10-14 thorough)",
        "observation (not classed as a defect, std's documented integer grammar): a leading `+` and leading zeros are accepted "
        "in ISD, AS (decimal and each hex group) and port numbers, e.g. Asn::from_str(\"+5\") == Ok(5), `[..]:+80`",
    ],
    "assumptions": [
        "strings range over valid UTF-8 built from ASCII and the 2-byte code points U+0080..U+07FF (harness generator), length <= n",
        "documented number grammar = std's FromStr for integers: `+`? digit+ (leading zeros allowed)",
    ],
    "trusted": ["core::fmt integer formatting and core::str searching are verified as compiled (not stubbed)"],
    "units": [
        {
            "id": "sciparse-text", "engine": "kani", "package": "sciparse",
            "crate_dir": "crates/libs/sciparse",
            "module": "/verif/kani/sciparse/text.rs",
            "mod_path": "scion::address::socket_addr::verif_text",
            "hooks": [(SOCK, "mod verif_text;")],
            "anchors": [(SOCK, ["parse_socket_addr", "format_socket_addr"]),
                        (HOST, ["impl FromStr for ServiceAddr", "impl Display for ServiceAddr"]),
                        (ISD, ["impl FromStr for Isd", "impl Display for Isd"]),
                        (ASN, ["impl FromStr for Asn", "impl Display for Asn"]),
                        (IA, ["impl FromStr for IsdAsn", "impl Display for IsdAsn"])],
            "functions": ["socket_addr::parse_socket_addr", "Isd::from_str", "Asn::from_str", "IsdAsn::from_str",
                          "ServiceAddr::from_str", "Isd::fmt", "Asn::fmt", "IsdAsn::fmt", "ServiceAddr::fmt"],
            "harnesses": [
                H("c15_sock_split_n6", "B", bound="strings <= 6 bytes", what="splitter total + exact", timeout=2400),
                H("c15_isd_from_str_n6", "B", bound="strings <= 6 bytes", what="Isd::from_str total + language", timeout=900),
                H("c15_asn_from_str_n5", "B", bound="strings <= 5 bytes", what="Asn::from_str total + language", timeout=2400),
                H("c15_isd_asn_from_str_n5", "B", bound="strings <= 5 bytes", what="IsdAsn::from_str total + language", timeout=2400),
                H("c15_asn_from_str_n6", "B", tier="thorough", bound="strings <= 6 bytes", what="Asn::from_str total + language", timeout=3600),
                H("c15_isd_asn_from_str_n6", "B", tier="thorough", bound="strings <= 6 bytes", what="IsdAsn::from_str total + language", timeout=3600),
                H("c15_svc_from_str_n6", "B", bound="strings <= 6 bytes", what="ServiceAddr::from_str total + language", timeout=2400),
                H("c15_rt_isd", "P", what="Isd display/parse round trip, all 2^16 values", timeout=900),
                H("c15_rt_svc", "P", tier="experimental", what="ServiceAddr display/parse round trip, all 2^16 values", timeout=3600),
                H("c15_rt_asn_decimal", "P", tier="experimental", what="Asn round trip, decimal range (<= 2^32-1)", timeout=1800),
                H("c15_rt_asn_hex", "P", tier="experimental", what="Asn round trip, colon-hex range", timeout=1800),
                H("c15_rt_isd_asn", "P", tier="experimental", what="IsdAsn round trip, all 2^64 values", timeout=3600),
                H("c15_sock_split_n10", "B", tier="experimental", bound="strings <= 10 bytes", what="splitter total + exact", timeout=3600),
                H("c15_isd_from_str_n10", "B", tier="experimental", bound="strings <= 10 bytes", what="Isd::from_str", timeout=3600),
                H("c15_asn_from_str_n10", "B", tier="experimental", bound="strings <= 10 bytes", what="Asn::from_str", timeout=3600),
                H("c15_isd_asn_from_str_n10", "B", tier="experimental", bound="strings <= 10 bytes", what="IsdAsn::from_str", timeout=3600),
                H("c15_svc_from_str_n14", "B", tier="experimental", bound="strings <= 14 bytes", what="ServiceAddr::from_str incl. Wildcard_M and <SVC:0xhhhh>_M", timeout=3600),
            ],
        },
        {
            "id": "sciparse-text-addr", "engine": "kani", "package": "sciparse",
            "crate_dir": "crates/libs/sciparse",
            "module": "/verif/kani/sciparse/text_addr.rs",
            "mod_path": "scion::address::addr::verif_text_addr",
            "hooks": [("crates/libs/sciparse/src/scion/address/addr.rs", "mod verif_text_addr;")],
            "anchors": [("crates/libs/sciparse/src/scion/address/addr.rs", ["parse_scion_addr"])],
            "functions": ["parse_scion_addr"],
            "harnesses": [
                H("c15_scion_addr_split_n6", "B", bound="strings <= 6 bytes: fixed ISD-AS text `1-1` followed by <= 3 bytes over {0,1,f,-,:,',',x}; host grammar replaced by a recording stub",
                  what="ISD-AS,host splitter: total; host part is exactly the text after the first comma up to the end", timeout=2400),
            ],
        },
    ],
}
