from registry import H

ACL = "crates/libs/sciparse/src/scion/path/policy/acl.rs"
TYPES = "crates/libs/sciparse/src/scion/path/policy/types.rs"
HOPP = "crates/libs/sciparse/src/scion/path/policy/hop_pattern.rs"
ISD = "crates/libs/sciparse/src/scion/identifier/isd.rs"
ASN = "crates/libs/sciparse/src/scion/identifier/asn.rs"
IA = "crates/libs/sciparse/src/scion/identifier/isd_asn.rs"

PROP = {
    "level": "model_checking",
    "clauses": [
        "ACL (engine V, UNBOUNDED in entries and hops, class P): for a non-empty hop sequence AclPolicy::matches(path) <=> "
        "forall i. first_match(entries, default, path[i]) == Allow, first_match a recursive spec function; the functions "
        "AclPolicy::matches, AclEntry::matches, PathPolicyHop::matches, HopPredicate::matches, InterfacesPredicate::matches, "
        "InterfacePredicate::matches, Isd/Asn::matches, IsdAsn::isd/asn are extracted from the source text on every run",
        "predicate semantics (Kani on the real crate, class P): ISD 0 / AS 0 / interface 0 wildcards, Either vs Both",
        "PathPolicyHop::hops_from_path: Err without metadata / interfaces; first hop ingress 0, last hop egress 0, hop shape "
        "(<= 4 interfaces)",
        "HopPredicate::from_str total, accepted strings use only the predicate alphabet; Display . parse identity (bounded)",
    ],
    "not_decided": [
        "hop-pattern semantics beyond the five depth-1 shapes a, a?, a+, a*, a|b (<= 3 hops): nested repetition, nullable bodies "
        "under + and *, alternation with quantified arms, sequences of more than one top-level expression -- BTreeSet position "
        "sets are intractable for CBMC (probe: >9 CPU-min / 5.7 GB for `(a|b?)+` with <= 2 hops); termination of the matcher is "
        "likewise covered only for those shapes; the depth-1 harnesses are thorough-tier and admitted only if they discharge "
        "within 10 min each",
        "lexer / Pratt parser totality, `redundant parentheses and whitespace do not change meaning`: not under contract in this round",
        "HopPredicate text round trip only for numeric fields < 10 (structure alphabet complete)",
    ],
    "assumptions": [
        "call-site precondition of AclPolicy::matches: non-empty hop sequence (hops_from_path yields >= 2 hops; shown by "
        "c16_hops_from_path_i1..i4 for <= 4 interfaces)",
        "Isd/Asn wildcard matching is symmetric (a hop whose ISD or AS is 0 matches every predicate): taken from the doc comment "
        "of Isd::matches / Asn::matches",
    ],
    "trusted": ["rustc derive(PartialEq) on AclEntryOperator is structural equality (Verus unit)"],
    "units": [
        {
            "id": "acl", "engine": "verus", "overlay": "/verif/verus/acl.overlay",
            "what": "ACL first-match semantics, unbounded; predicate table",
            "paired_kani": "c16_acl_first_match_e0..e3", "rlimit": 30, "timeout": 900,
            "anchors": [(ACL, ["impl AclPolicy {", "impl AclEntry {", "pub fn matches(&self, path: &[PathPolicyHop]) -> bool"]),
                        (TYPES, ["impl HopPredicate {", "impl InterfacesPredicate {", "impl InterfacePredicate {",
                                 "impl PathPolicyHop {"]),
                        (ISD, ["impl Isd {"]), (ASN, ["impl Asn {"]), (IA, ["impl IsdAsn {"])],
            "functions": ["AclPolicy::matches", "AclEntry::matches", "PathPolicyHop::matches", "HopPredicate::matches",
                          "InterfacesPredicate::matches", "InterfacePredicate::matches", "Isd::matches", "Asn::matches",
                          "IsdAsn::isd", "IsdAsn::asn"],
        },
        {
            "id": "sciparse-policy-acl", "engine": "kani", "package": "sciparse",
            "crate_dir": "crates/libs/sciparse",
            "module": "/verif/kani/sciparse/policy_acl.rs",
            "mod_path": "scion::path::policy::acl::verif_policy_acl",
            "hooks": [(ACL, "mod verif_policy_acl;")],
            "anchors": [(TYPES, ["hops_from_path", "impl FromStr for HopPredicate", "impl Display for HopPredicate"])],
            "functions": ["PathPolicyHop::hops_from_path", "HopPredicate::from_str", "HopPredicate::fmt"],
            "harnesses": [
                H("c16_pred_isd_asn_wildcards", "P", what="Isd/Asn::matches wildcard table"),
                H("c16_pred_interfaces", "P", what="InterfacesPredicate::matches: Any/Either/Both, interface 0 wildcard"),
                H("c16_pred_hop", "P", what="PathPolicyHop::matches / HopPredicate::matches == documented table"),
                H("c16_acl_entry", "P", what="AclEntry::matches"),
                H("c16_acl_first_match_e0", "B", bound="exactly 0 entries, 1..=4 hops, full predicate alphabet",
                  what="bounded companion of the Verus ACL unit (concrete counterexamples)", timeout=1200),
                H("c16_acl_first_match_e1", "B", bound="exactly 1 entries, 1..=4 hops, full predicate alphabet",
                  what="bounded companion of the Verus ACL unit (concrete counterexamples)", timeout=1200),
                H("c16_acl_first_match_e2", "B", bound="exactly 2 entries, 1..=4 hops, full predicate alphabet",
                  what="bounded companion of the Verus ACL unit (concrete counterexamples)", timeout=1200),
                H("c16_acl_first_match_e3", "B", bound="exactly 3 entries, 1..=4 hops, full predicate alphabet",
                  what="bounded companion of the Verus ACL unit (concrete counterexamples)", timeout=1200),
                H("c16_hops_from_path_no_metadata", "P", what="Err without metadata / interfaces"),
                H("c16_hops_from_path_i1", "B", bound="exactly 1 interfaces", what="hop extraction shape, first hop ingress 0 / last hop egress 0", timeout=1200),
                H("c16_hops_from_path_i2", "B", bound="exactly 2 interfaces", what="hop extraction shape, first hop ingress 0 / last hop egress 0", timeout=1200),
                H("c16_hops_from_path_i3", "B", bound="exactly 3 interfaces", what="hop extraction shape, first hop ingress 0 / last hop egress 0", timeout=1200),
                H("c16_hops_from_path_i4", "B", bound="exactly 4 interfaces", what="hop extraction shape, first hop ingress 0 / last hop egress 0", timeout=1200),
                H("c16_hop_pred_parse_n6", "B", bound="ASCII strings <= 6 bytes", what="HopPredicate::from_str total + alphabet", timeout=1800),
                H("c16_hop_pred_display_parse_b", "B", tier="experimental", bound="numeric fields < 10 (printed form <= 8 bytes), full structure alphabet",
                  what="HopPredicate Display . parse", timeout=3600),
                H("c16_hop_pred_parse_n8", "B", tier="thorough", bound="ASCII strings <= 8 bytes", what="HopPredicate::from_str total + alphabet", timeout=3600),
            ],
        },
        {
            "id": "sciparse-hop-pattern", "engine": "kani", "package": "sciparse",
            "crate_dir": "crates/libs/sciparse",
            "module": "/verif/kani/sciparse/hop_pattern.rs",
            "mod_path": "scion::path::policy::hop_pattern::verif_hop_pattern",
            "hooks": [(HOPP, "mod verif_hop_pattern;")],
            "anchors": [(HOPP, ["match_from", "all_nested_matches", "enum HopPatternExpression"])],
            "functions": ["HopPatternExpression::match_from", "HopPatternExpression::all_nested_matches",
                          "HopPatternPolicy::matches"],
            "harnesses": [
                H("c16_hp_shape_%s" % sh, "B", tier="experimental", bound="depth-1 shape `%s`, symbolic leaves, <= 3 hops" % txt,
                  what="match_from == { q | hops[p..q] in L(e) } and HopPatternPolicy([e]).matches == (hops in L(e))", timeout=600)
                for sh, txt in [("leaf", "a"), ("opt", "a?"), ("plus", "a+"), ("star", "a*"), ("or", "a|b")]
            ],
        },
    ],
}
