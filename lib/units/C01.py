from registry import H

GRAPH = "crates/libs/sciparse/src/scion/path/combinator/graph.rs"
SEG = "crates/libs/sciparse/src/scion/segment.rs"
MAC = "crates/libs/sciparse/src/proto/dataplane_path/standard/mac.rs"

PROP = {
    "level": "model_checking",
    "clauses": [
        "ListSegmentPlan::new [P]: up requested <=> non-core source, down requested <=> non-core destination, core requested <=> different ISDs or several cores; the requests chain from src to dst; Err only for src == dst or when no segment is needed (the lookup-plan part of 'whenever the segments can be joined at least one path is offered')",
        "K2 SolutionEdge::initialize_segment_id == beta at the first hop in travel direction (cons-dir from shortcut s: beta_s; against "
        "cons-dir: beta_{n-1}; beta of the next entry when that first hop is a peer hop), no out-of-range index (3 arbitrary entries)",
        "K1 AsEntry::update_macs through the real add_unsigned_entry (2 entries, one symbolic key per AS, MAC stubbed): MAC_i is computed "
        "over beta_i with key_i; peer hop MACs chained with beta_{i+1} [violated on the unchanged tree: finding F-peer]",
        "K3 hop fields copied bit for bit, flags, timestamp: C04-3 harnesses (c04_meta_single_edge_*)",
    ],
    "not_decided": [
        "\"whenever segments can be joined, at least one path is offered\" and everything about the control-plane lookup plan "
        "(`list_segment_plan.rs`, `registry.rs`, `lister/`): completeness statements over a BFS on nested HashMaps and a topology-wide registry",
        "the build + path() + hop-by-hop walk composition with advance_ingress/egress_with_validator(HopMacValidator) and the reverse walk: "
        "not discharged symbolically (time); demonstrated only by the concrete tests in /verif/fixes/F-peer.md (plain, shortcut: forwardable both ways; peering: rejected)",
        "2- and 3-edge solutions",
        "observation: update_macs locates 'the entries before this one' by VALUE equality of hop_entry; a new entry whose placeholder "
        "hop_entry equals an earlier entry gets a truncated beta (excluded by an assume in c01_*_l2)",
    ],
    "assumptions": [
        "stub: calculate_hop_mac (AES-128-CMAC) replaced by a deterministic mixing function of (beta, ts, exp, in, eg, key); the obligations only use that the MAC is a function of its inputs",
        "new entry's placeholder hop_entry differs from the existing entries' (see observation)",
    ],
    "trusted": ["aes / cmac crates (stubbed out here; conformance is C11's subject)"],
    "units": [
        {
            "id": "sciparse-c01-chain", "engine": "kani", "package": "sciparse",
            "crate_dir": "crates/libs/sciparse",
            "module": "/verif/kani/sciparse/c01_chain.rs",
            "extra_files": ["/verif/kani/sciparse/c04_graph.rs", "/verif/kani/sciparse/c18_signed.rs"],
            "mod_path": "scion::path::combinator::graph::verif_c01_chain",
            "hooks": [(GRAPH, "mod verif_c01_chain;"), (GRAPH, "mod verif_c04_graph;"), (SEG, "pub(crate) mod verif_c18_signed;")],
            "anchors": [(GRAPH, ["initialize_segment_id", "path"]), (SEG, ["update_macs", "add_unsigned_entry"]), (MAC, ["calculate_hop_mac", "mac_chaining_beta"])],
            "functions": ["SolutionEdge::initialize_segment_id", "AsEntry::update_macs", "UnsignedPathSegment::add_unsigned_entry"],
            "harnesses": [
                H("c01_segid_init_l3", "B", bound="3 entries, 1 peer entry each", what="K2 SegID initialisation"),
                H("c01_mac_chain_l2", "B", bound="2 entries, 1 peer entry each", what="K1 regular hop MAC chain", timeout=1500),
                H("c01_kf_peer_mac_chain_l2", "B", bound="2 entries, 1 peer entry each", what="K1 peer hop MAC chain (beta_{i+1})", timeout=1500, known_finding="F-peer"),
            ],
        },
        {
            "id": "sciparse-c01-plan", "engine": "kani", "package": "sciparse",
            "crate_dir": "crates/libs/sciparse",
            "module": "/verif/kani/sciparse/c01_plan.rs",
            "mod_path": "scion::segment::list_segment_plan::verif_c01_plan",
            "hooks": [("crates/libs/sciparse/src/scion/segment/list_segment_plan.rs", "mod verif_c01_plan;")],
            "anchors": [("crates/libs/sciparse/src/scion/segment/list_segment_plan.rs", ["plan_same_isd", "plan_cross_isd", "validate"])],
            "functions": ["ListSegmentPlan::new", "ListSegmentPlan::plan_same_isd", "ListSegmentPlan::plan_cross_isd", "ListSegmentPlan::validate"],
            "harnesses": [
                H("c01_segment_plan_requests_every_needed_kind", "P", what="segment request plan: every segment kind of the route is requested, requests chain, Err only for src == dst / nothing needed"),
            ],
        },
    ],
}
