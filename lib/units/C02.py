import re

from registry import H

SP = "crates/libs/sciparse/src/"
CRATE = "crates/libs/sciparse"

PROP = {
    "level": "model_checking",
    "clauses": [
        "(1) constructors total: ScionHeaderView / StandardPathView / InfoFieldView / HopFieldView / OneHopPathView "
        "(and packet / UDP / SCMP views, unit packet-view) try_from_slice / try_from_mut_slice / try_from_boxed on every "
        "buffer <= N with all bytes and the length symbolic: no panic, Ok((v,rest)) => v starts at buf[0], v.len+rest.len == len, Inv(v)",
        "(2) every safe accessor called on a view satisfying Inv: no panic, CBMC pointer checks hold, every returned "
        "sub-slice / sub-view lies inside the view's bytes (address arithmetic), index accessors are Some exactly in range",
        "(3) every safe mutator (setters with arbitrary values, arbitrary writes through every returned &mut sub-view / slice) "
        "re-establishes Inv with the same length",
        "(4) layout arithmetic, full domain, loop-free: BitRange, AddressHeaderLayout, WireHostAddrType, StdPathDataLayout",
        "(5) unchecked_bit_range_be_read/write under their precondition: frame, effect (MSB first), independence, round trip",
    ],
    "not_decided": [
        "Debug / Display impls of the views (core::fmt machinery is intractable for CBMC)",
        "OneHopPathView::set_second_hop (AES-CMAC inside; byte ranges it writes are covered by the HopFieldView setters)",
        "StandardPathView::try_reverse / advance_* / expiration: owned by C11/C12 (worker path)",
        "to_boxed / copy_to_slice / to_owned_view (allocation + memcpy of symbolic length; the bytes copied are the view's own slice)",
        "buffers longer than the stated bound N: covered only through the layout-arithmetic contracts (4)",
    ],
    "assumptions": [
        "Inv for ScionHeaderView mutators is stated modulo the version nibble: the safe setter set_version(v != 0) makes "
        "has_required_size return Err(UnsupportedVersion) although no accessor bound depends on the version (recorded observation)",
        "UdpDatagramView::set_length is safe and can make has_required_size fail / shrink; accessors are proved under the weaker "
        "precondition len >= 8, which no safe mutator changes (recorded observation)",
    ],
    "trusted": [],
    "units": [
        {
            "id": "sciparse-c02-packet-view", "engine": "kani", "package": "sciparse", "crate_dir": CRATE,
            "module": "/verif/kani/sciparse/c02_packet_view.rs",
            "mod_path": "proto::packet::view::verif_c02_packet_view",
            "hooks": [(SP + "proto/packet/view.rs", "mod verif_c02_packet_view;")],
            "anchors": [
                (SP + "proto/packet/view.rs", ["header", "header_mut", "payload", "payload_mut", "udp", "scmp", "as_raw", "as_raw_mut",
                                               "try_as_udp", "try_as_scmp", "try_classify", "has_required_size"]),
                (SP + "proto/payload/udp/view.rs", ["payload", "payload_mut", "has_required_size"]),
                (SP + "proto/payload/scmp/view.rs", ["message", "message_mut", "offending_packet", "data", "message_specific_data",
                                                     # the size-determining type byte of the unknown view must stay an unsafe setter
                                                     re.compile(r"gen_unsafe_field_write!\(\s*set_message_type,\s*ScmpUnknownMessageLayout::TYPE_RNG,\s*u8\s*\)")]),
            ],
            "functions": ["ScionPacketView<Raw|Udp|Scmp>::*", "UdpDatagramView::*", "ScmpPayloadView::*", "Scmp*MessageView::*"],
            "harnesses": [
                H("c02_pkt_raw_ctor_accessors", "B", bound="buffer <= 80 bytes", what="ScionRawPacketView constructor + header()/payload() inside", timeout=1800),
                H("c02_pkt_raw_classify", "B", bound="buffer <= 80 bytes", what="try_as_udp / try_as_scmp / try_classify total, typed sub-views inside", timeout=1800),
                H("c02_pkt_raw_mutators_preserve_inv", "B", bound="buffer <= 80 bytes", what="payload_mut writes + header_mut setters preserve Inv", timeout=1800),
                H("c02_pkt_udp_ctor_accessors", "B", bound="buffer <= 80 bytes", what="ScionUdpPacketView constructor, udp(), socket addrs, header setters", timeout=1800),
                H("c02_pkt_udp_as_raw_mut_then_accessors", "B", bound="buffer <= 80 bytes", what="safe as_raw_mut().payload_mut() writes keep every accessor panic-free (F-udp-raw-mut)", timeout=1800),
                H("c02_udp_datagram_view", "P", what="UdpDatagramView constructor / accessors / mutators on every buffer <= 24 bytes (accessors touch only the 8-byte header or the tail)"),
                H("c02_scmp_payload_ctor_message", "B", bound="buffer <= 40 bytes", what="ScmpPayloadView constructor, message() variants, quoted packet / data inside", timeout=1800),
                H("c02_scmp_message_mut_preserves_inv", "B", bound="buffer <= 40 bytes", what="safe setters through message_mut() preserve Inv", timeout=1800),
            ],
        },
        {
            "id": "sciparse-c02-header-view", "engine": "kani", "package": "sciparse", "crate_dir": CRATE,
            "module": "/verif/kani/sciparse/c02_header_view.rs",
            "mod_path": "proto::header::view::verif_c02_header_view",
            "hooks": [(SP + "proto/header/view.rs", "mod verif_c02_header_view;")],
            "anchors": [
                (SP + "core/view.rs", ["try_from_slice", "try_from_mut_slice", "try_from_boxed", "has_required_size"]),
                (SP + "proto/header/layout.rs", ["try_from_slice"]),
                (SP + "proto/header/view.rs", ["path", "path_mut", "dst_host_addr", "src_host_addr", "src_host_addr_range", "header_len",
                                               "set_version,", "set_traffic_class,", "set_flow_id,", "set_next_header",
                                               "set_src_isd", "set_src_as", "set_dst_isd", "set_dst_as"]),
                (SP + "proto/dataplane_path/standard/view.rs", ["info_field", "hop_field", "info_fields", "hop_fields", "info_field_mut",
                                               "hop_field_mut", "info_fields_mut", "hop_fields_mut", "curr_info_field", "curr_hop_field",
                                               "curr_info_field_mut", "curr_hop_field_mut", "checked_hop_field_range", "segments",
                                               "calculate_segment_index", "curr_egress_interface"]),
                (SP + "proto/dataplane_path/onehop/view.rs", ["info_field", "info_field_mut", "hop_fields", "mut_hop_fields", "try_reverse"]),
            ],
            "functions": ["View::try_from_slice", "View::try_from_mut_slice", "View::try_from_boxed",
                          "ScionHeaderLayout::try_from_slice", "ScionHeaderView::*", "StandardPathView::*",
                          "InfoFieldView::*", "HopFieldView::*", "OneHopPathView::*", "ScionDpPathViewExt::*"],
            "harnesses": [
                H("c02_hdr_ctor_slice", "B", bound="buffer <= 128 bytes, all bytes and the length symbolic", what="ScionHeaderView::try_from_slice: total, prefix, partition, Inv", timeout=1800),
                H("c02_hdr_ctor_mut_slice", "B", bound="buffer <= 128 bytes", what="ScionHeaderView::try_from_mut_slice: total, prefix, partition, Inv", timeout=1800),
                H("c02_hdr_ctor_boxed", "B", bound="buffer <= 64 bytes", what="ScionHeaderView::try_from_boxed: exact length, Inv", timeout=1800),
                H("c02_hdr_accessors_common_addr", "B", bound="buffer <= 128 bytes", what="common + address header accessors under Inv", timeout=1800),
                H("c02_hdr_path_subview_inside", "B", bound="buffer <= 128 bytes", what="path() sub-view inside the header, Inv of the sub-view, ScionDpPathViewRef accessors", timeout=1800),
                H("c02_hdr_mutators_preserve_inv", "B", bound="buffer <= 128 bytes", what="safe header setters preserve Inv (set_version: modulo the version nibble)", timeout=1800),
                H("c02_hdr_path_mut_preserves_inv", "B", bound="buffer <= 128 bytes", what="writes through path_mut() preserve the header Inv", timeout=1800),
                H("c02_stdpath_ctor", "B", bound="buffer <= 100 bytes (<= 3 info + 6 hop fields)", what="StandardPathView constructor", timeout=1800),
                H("c02_stdpath_accessors_inside", "B", bound="buffer <= 100 bytes", what="StandardPathView accessors: sub-views inside, index <-> Some/None exact", timeout=1800),
                H("c02_stdpath_segments_inside", "B", bound="buffer <= 100 bytes", what="segments() iterator yields sub-views inside the view", timeout=1800),
                H("c02_stdpath_mutators_preserve_inv", "B", bound="buffer <= 100 bytes", what="StandardPathView safe setters / *_mut writes preserve Inv", timeout=1800),
                H("c02_info_hop_field_views", "P", what="InfoFieldView / HopFieldView constructors, setters, getters (fixed size, all bytes symbolic)"),
                H("c02_onehop_view", "P", what="OneHopPathView constructor, accessors, mutators, try_reverse (fixed size, all bytes symbolic)"),
            ],
        },
        {
            "id": "sciparse-c02-layout", "engine": "kani", "package": "sciparse", "crate_dir": CRATE,
            "module": "/verif/kani/sciparse/c02_layout.rs",
            "mod_path": "core::layout::verif_c02_layout",
            "hooks": [(SP + "core/layout.rs", "mod verif_c02_layout;")],
            "anchors": [
                (SP + "core/layout.rs", ["containing_byte_range", "size_bytes", "shift", "aligned_byte_range"]),
                (SP + "core/read.rs", ["unchecked_bit_range_be_read"]),
                (SP + "core/write.rs", ["unchecked_bit_range_be_write"]),
                (SP + "proto/header/layout.rs", ["dst_host_addr_range", "src_host_addr_range", "total_range"]),
                (SP + "proto/dataplane_path/standard/layout.rs", ["info_field_range", "hop_field_range", "info_fields_range", "hop_fields_range"]),
                (SP + "scion/address/host_addr.rs", ["size"]),
            ],
            "functions": ["BitRange::containing_byte_range", "BitRange::size_bytes", "BitRange::shift",
                          "BitRange::aligned_byte_range", "AddressHeaderLayout::dst_host_addr_range",
                          "AddressHeaderLayout::src_host_addr_range", "AddressHeaderLayout::size_bytes",
                          "WireHostAddrType::from(u8)", "WireHostAddrType::size",
                          "StdPathDataLayout::info_field_range", "StdPathDataLayout::hop_field_range",
                          "StdPathDataLayout::size_bytes", "unchecked_bit_range_be_read", "unchecked_bit_range_be_write"],
            "harnesses": [
                H("c02_bitrange_arith", "P", what="BitRange containing_byte_range/size_bytes/shift/aligned_byte_range, all ranges <= 2^40"),
                H("c02_addr_layout_ranges", "P", what="AddressHeaderLayout ranges for all 256x256 length pairs"),
                H("c02_addr_type_nibble", "P", what="WireHostAddrType::from/size/into for all byte values"),
                H("c02_stdpath_layout_ranges", "P", what="StdPathDataLayout field ranges for all 2^24 segment triples and all indices"),
                H("c02_bit_write_u64_frame_effect", "P", what="bit-range write: frame, effect, round trip (u64 carrier, every range <= 64 bits in 20 bytes)"),
                H("c02_bit_read_u64_exact", "P", what="bit-range read: exact bits, independence from bytes outside the range"),
                H("c02_bit_rw_u8", "P", what="bit-range write/read, u8 carrier"),
                H("c02_bit_rw_u16", "P", what="bit-range write/read, u16 carrier"),
                H("c02_bit_rw_u32", "P", what="bit-range write/read, u32 carrier"),
            ],
        },
    ],
}
