from registry import H

POLICY = "crates/snap/snap-dataplane/src/tunnel_gateway/packet_policy.rs"
GATEWAY = "crates/snap/snap-dataplane/src/tunnel_gateway/gateway.rs"

PROP = {
    "level": "model_checking",
    "clauses": [
        "inbound_datagram_check(d, ip) == Ok(v) <=> Spec(d, ip), Spec written in the harness from the SCION header wire "
        "format with byte arithmetic only (len >= 12, version 0, HdrLen*4 == 28 + DL + SL + pathlen <= len, path type in "
        "{empty, standard}, source nibble/bytes == peer (0b0000 & V4, 0b0011 & V6)); no service / unknown-length nibble and "
        "no v4-mapped peer ever matches; Ok(v) => v is the prefix d[..min(hdr+payload, len)] (same memory); Err carries "
        "the datagram / a prefix of it; no panic, no out-of-bounds access in the unsafe view code",
        "create_scmp_error for every error of inbound_datagram_check x any local/destination address x any target size: "
        "Err(BufferTooSmall(req)) with target < req <= 1232, or Ok(n) with n <= target.len(), n <= 1232, a SCION/SCMP "
        "ParameterProblem packet with the matching code, quoting a prefix of the offending datagram, with a verifying "
        "RFC 1071 checksum over the SCION pseudo header (spec written in the harness); never another error",
        "reply size for long offenders: malformed datagrams of any length <= 9216 => required reply size <= 1232, "
        "quote <= offender, whole offender quoted when it fits",
    ],
    "not_decided": [
        "'never dispatched' for rejected datagrams and 'at most one reply': the gateway receive loop "
        "(TunnelGateway::start_server) is async around SnapTunServer/WireGuard state and is not driven by a harness; "
        "try_dispatch is textually only on the Ok arm and create_scmp_error returns one packet (inspected, anchor-scanned, "
        "not proved)",
        "datagrams longer than the harness bound (decision: 120 B; the decision reads only header bytes <= 1020 B; "
        "headers between 120 and 1020 B are not covered)",
    ],
    "assumptions": [
        "reply byte-level harness: offending datagram <= 48 B, target buffer <= 160 B",
        "reply budget harness: offender bytes are zero (size depends on the length only), length symbolic <= 9216",
    ],
    "trusted": ["ana_gotatun::packet::Packet / bytes::BytesMut as target buffer (compiled in, not stubbed)"],
    "units": [
        {
            "id": "snap-dataplane-policy", "engine": "kani", "package": "snap-dataplane",
            "crate_dir": "crates/snap/snap-dataplane",
            "module": "/verif/kani/snap_dataplane/c08_policy.rs",
            "mod_path": "tunnel_gateway::packet_policy::verif_c08_policy",
            "hooks": [(POLICY, "mod verif_c08_policy;")],
            "anchors": [(POLICY, ["inbound_datagram_check", "pub enum PacketPolicyError"]),
                        (GATEWAY, ["self.dispatcher.try_dispatch(view);"])],
            "functions": ["inbound_datagram_check"],
            "harnesses": [
                H("c08_decision_n120", "B", bound="datagram <= 120 B (all bytes and length symbolic) x all v4/v6 peers",
                  what="decision <=> independent byte-level spec; accepted view = prefix; Err carries the datagram", timeout=2400),
                H("c08_family_n52", "B", bound="datagram <= 52 B x all v4 peers and their v4-mapped form",
                  what="v4-mapped v6 peer never matches an IPv4 source and vice versa", timeout=2400),
            ],
        },
        {
            "id": "snap-dataplane-reply", "engine": "kani", "package": "snap-dataplane",
            "crate_dir": "crates/snap/snap-dataplane",
            "module": "/verif/kani/snap_dataplane/c08_reply.rs",
            "mod_path": "tunnel_gateway::gateway::verif_c08_reply",
            "hooks": [(GATEWAY, "mod verif_c08_reply;")],
            "anchors": [(GATEWAY, ["create_scmp_error", "create_inbound_scmp_error"])],
            "functions": ["TunnelGateway::create_scmp_error", "create_inbound_scmp_error"],
            "harnesses": [
                H("c08_reply_bytes_n48", "B", bound="offending datagram <= 48 B, target <= 160 B, any v4/v6 addresses",
                  what="reply fits, <= 1232, ParameterProblem with matching code, quote = prefix, checksum verifies", timeout=2400),
                H("c08_reply_budget_l9216", "B", bound="offender length symbolic <= 9216 (zero bytes), any v4/v6 addresses",
                  what="required reply size <= 1232 for long offenders", timeout=1200),
            ],
        },
    ],
}
