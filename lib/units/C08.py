from registry import H

POLICY = "crates/snap/snap-dataplane/src/tunnel_gateway/packet_policy.rs"
GATEWAY = "crates/snap/snap-dataplane/src/tunnel_gateway/gateway.rs"

PROP = {
    "level": "model_checking",
    "clauses": [
        "inbound_datagram_check(d, ip) == Ok(v) <=> Spec(d, ip), Spec written in the harness from the SCION header wire "
        "format with byte arithmetic only (len >= 12, version 0, HdrLen*4 == 28 + DL + SL + pathlen <= len, path type in "
        "{empty, standard}, source nibble/bytes == peer (0b0000 & V4, 0b0011 & V6)); no service / unknown-length nibble and "
        "no v4-mapped peer ever matches; Ok(v) => v is the prefix d[..min(hdr+payload, len)] (same memory); Err carries "
        "the datagram / a prefix of it; no panic, no out-of-bounds access in the unsafe view code",
        "reply size (create_scmp_error on the real error values with an empty target => Err(BufferTooSmall(req))): malformed "
        "datagrams of any length <= 9216 x any v4/v6 local/destination addresses => required reply size req <= 1232, "
        "req >= header + 8, quote <= offender, whole offender quoted when it fits; never Ok / another error for an empty target",
    ],
    "not_decided": [
        "'never dispatched' for rejected datagrams and 'at most one reply': the gateway receive loop "
        "(TunnelGateway::start_server) is async around SnapTunServer/WireGuard state and is not driven by a harness; "
        "try_dispatch is textually only on the Ok arm and create_scmp_error returns one packet (inspected, anchor-scanned, "
        "not proved)",
        "byte-level reply contract (reply fits the target, ParameterProblem code, quote bytes = prefix of the datagram, RFC 1071 "
        "checksum verifies): harness c08_reply_bytes_n48 is written in /verif/kani/snap_dataplane/c08_reply.rs but not registered: "
        "symbolic-size encode buffers exhaust >10 GB in CBMC (same encoder as C14 clause 2, where the checksum defect "
        "fixes/scmp-checksum is demonstrated); c08_family_n52 (v4-mapped peers, implied by the decision contract) passed in 421 s "
        "at 64 B in a direct run but is not registered (time budget)",
        "datagrams longer than the harness bound (decision: 120 B; the decision reads only header bytes <= 1020 B; "
        "headers between 120 and 1020 B are not covered)",
    ],
    "assumptions": [
        "reply budget harness: offender bytes are zero (size depends on the length only), length symbolic <= 9216",
    ],
    "trusted": ["ana_gotatun::packet::Packet / bytes::BytesMut as target buffer (compiled in, not stubbed)"],
    "units": [
        {
            "id": "snap-dataplane-policy", "engine": "kani", "package": "snap-dataplane",
            "crate_dir": "crates/snap/snap-dataplane",
            "module": "/verif/kani/snap_dataplane/c08_policy.rs",
            "mod_path": "tunnel_gateway::packet_policy::verif_c08_policy",
            "hooks": [(POLICY, "mod verif_c08_policy;")],
            "anchors": [(POLICY, ["inbound_datagram_check", "pub enum PacketPolicyError"]),
                        (GATEWAY, ["self.dispatcher.try_dispatch(view);"])],
            "functions": ["inbound_datagram_check"],
            "harnesses": [
                H("c08_decision_n120", "B", bound="datagram <= 120 B (all bytes and length symbolic) x all v4/v6 peers",
                  what="decision <=> independent byte-level spec; accepted view = prefix; Err carries the datagram", timeout=2400),
            ],
        },
        {
            "id": "snap-dataplane-reply", "engine": "kani", "package": "snap-dataplane",
            "crate_dir": "crates/snap/snap-dataplane",
            "module": "/verif/kani/snap_dataplane/c08_reply.rs",
            "mod_path": "tunnel_gateway::gateway::verif_c08_reply",
            "hooks": [(GATEWAY, "mod verif_c08_reply;")],
            "anchors": [(GATEWAY, ["create_scmp_error", "create_inbound_scmp_error"])],
            "functions": ["TunnelGateway::create_scmp_error", "create_inbound_scmp_error"],
            "harnesses": [
                H("c08_reply_budget_l9216", "B", bound="offender length symbolic <= 9216 (zero bytes), any v4/v6 addresses",
                  what="required reply size <= 1232 for long offenders", timeout=1200),
                H("c08_inbound_error_total_n64", "B", bound="datagram <= 64 B (all bytes and length symbolic) x all v4/v6 peers",
                  what="create_inbound_scmp_error total on every policy error incl. truncated datagrams; quote is a prefix; pointer inside the header", timeout=1800),
            ],
        },
    ],
}
