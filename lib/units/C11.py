from registry import H

DP = "crates/libs/sciparse/src/proto/dataplane_path/"
ROUTING = DP + "standard/routing.rs"
STDVIEW = DP + "standard/view.rs"
MAC = DP + "standard/mac.rs"
OHVIEW = DP + "onehop/view.rs"

B100 = "path byte strings <= 100 B (every segment-length triple with <= 6-7 hop fields, all pointer values, all flags and field contents)"

PROP = {
    "level": "model_checking",
    "explanation": "Interpretation: `Ok(ValidationFailed(..))` is by the API documentation 'advanced, but validation "
                   "failed'; at this level it is an Ok outcome (frame + pointer rule apply, the caller drops the packet), "
                   "only `Err(AdvanceError)` must leave the bytes untouched. History clause: per-step contracts are proved "
                   "from an arbitrary accepted byte string, so 'processed at most hop-count times' follows by induction "
                   "on the measure (hops - CurrHF, stage).",
    "clauses": [
        "atomicity: advance_{ingress,egress}_with_validator returning Err(AdvanceError) leaves every byte of the buffer unchanged, "
        "for every byte string accepted by the StandardPathView constructor, every from_internal flag and every validator verdict",
        "frame: Ok(_) changes at most byte 0 (CurrINF|CurrHF), the SegID bytes of the pre-current info field and the two "
        "router-alert bits of the pre-current hop field (byte-wise, including the bytes behind the view)",
        "monotonicity: egress Ok => CurrHF' = CurrHF+1 <= hops-1, CurrINF unchanged, never out of a segment end; ingress Ok => "
        "CurrHF' = CurrHF + [segment change], CurrINF' = CurrINF + [segment change]; ForwardLocal iff last hop field; "
        "the unreachable!() arm and every expect() are unreachable; no panic/overflow/out-of-bounds",
        "totality: Err is returned only for out-of-range/inconsistent pointers, single-hop segments (ingress), segment end (egress), "
        "missing next segment",
        "SegID rule per step (cons-dir egress XORs mac[0..2] after validation; against cons-dir ingress from outside XORs before "
        "validation; otherwise unchanged) and router-alert consumption; validator call protocol (which hop, which SegID, stop at first failure); "
        "ValidationFailed iff a validator call rejected",
        "HopMacValidator exactness: validate_hop == Ok <=> hop.mac == calculate_hop_mac(info.segment_id, info.timestamp, hop.exp_time, "
        "hop.cons_ingress, hop.cons_egress, key), one evaluation, AES-CMAC uninterpreted",
        "OneHopPathView::set_second_hop: writes only ExpTime/ConsIngress/ConsEgress/MAC of the second hop; MAC evaluated on "
        "(SegID or SegID^mac1[0..2], timestamp, exp1, ingress, 0, key)",
    ],
    "not_decided": [
        "thorough-tier harnesses written in /verif/kani/sciparse/routing.rs but NOT yet run and therefore NOT registered: "
        "c11_{egress,ingress}_{atomic_frame,step_rule}_full (same contracts on the FULL input domain, N = 2296 B = largest layout a meta "
        "header can describe; would be class P) and c11_mac_known_vector_t (real AES-CMAC on one hop block, reference value from OpenSSL "
        "which reproduces RFC 4493 example 2: key 2b7e1516..., block 000012345f000000003f010203040000 -> 34d6c623df84)",
        "'changing any authenticated bit makes verification fail': reduces to validator exactness + second-preimage resistance of the "
        "48-bit truncated AES-CMAC (cryptographic assumption, not decidable by contracts)",
        "pocketscion spec/onehop.rs handler (owned by C13)",
        "Flags / reserved bits / router-alert bits of a hop field are NOT authenticated (shown by the validator contract: they are not MAC inputs)",
    ],
    "assumptions": [
        "calculate_hop_mac is replaced by an uninterpreted function (records arguments, returns a fresh symbolic value) in "
        "c11_validator_exact and c11_onehop_set_second_hop",
        "second-preimage resistance of truncated AES-CMAC",
    ],
    "trusted": ["aes / cmac crates (AES-CMAC itself is not executed symbolically)"],
    "units": [
        {
            "id": "sciparse-routing", "engine": "kani", "package": "sciparse",
            "crate_dir": "crates/libs/sciparse",
            "module": "/verif/kani/sciparse/routing.rs",
            "mod_path": "proto::dataplane_path::standard::routing::verif_routing",
            "hooks": [(ROUTING, "mod verif_routing;")],
            "anchors": [(ROUTING, ["advance_ingress_with_validator", "advance_egress_with_validator", "validate_hop",
                                   "validate_segment_change"]),
                        (STDVIEW, ["calculate_segment_index", "hop_field_mut", "info_field_mut", "set_curr_hop_field,"]),
                        (MAC, ["calculate_hop_mac", "mac_beta_step"])],
            "functions": ["StandardPathView::advance_ingress_with_validator", "StandardPathView::advance_egress_with_validator",
                          "HopMacValidator::validate_hop", "StandardPathView::calculate_segment_index",
                          "algo::mac_beta_step", "algo::calculate_hop_mac"],
            "harnesses": [
                H("c11_egress_atomic_frame_n100", "B", bound=B100, what="egress: Err => bytes unchanged; Ok => byte-wise frame", timeout=3000),
                H("c11_egress_step_rule_n100", "B", bound=B100, what="egress: pointer rule, SegID rule, alert, verdict, outputs, Err characterisation", timeout=3000),
                H("c11_ingress_atomic_frame_n100", "B", bound=B100, what="ingress: Err => bytes unchanged; Ok => byte-wise frame", timeout=3000),
                H("c11_ingress_step_rule_n100", "B", bound=B100, what="ingress: pointer rule incl. segment change, ForwardLocal, SegID rule, validator protocol", timeout=3000),
                H("c11_validator_exact", "P", what="HopMacValidator accepts iff mac == MAC(authenticated tuple, key)", timeout=1800),
            ],
        },
        {
            "id": "sciparse-onehop-c11", "engine": "kani", "package": "sciparse",
            "crate_dir": "crates/libs/sciparse",
            "module": "/verif/kani/sciparse/onehop_view.rs",
            "mod_path": "proto::dataplane_path::onehop::view::verif_onehop_view",
            "hooks": [(OHVIEW, "mod verif_onehop_view;")],
            "anchors": [(OHVIEW, ["set_second_hop", "mut_hop_fields"]), (MAC, ["calculate_hop_mac", "mac_beta_step"])],
            "functions": ["OneHopPathView::set_second_hop"],
            "harnesses": [
                H("c11_onehop_set_second_hop", "P", what="set_second_hop frame + MAC chaining tuple", timeout=1800),
            ],
        },
    ],
}
