from registry import H

IR = "crates/snap/snap-control/src/server/identity_registry.rs"

_STEP_BOUND = ("state = exactly N entries under keys 'a'..; op key in {'a','b','c','d'}; identities symbolic 32 B; "
               "instants in [base, base+2^32 s)")

PROP = {
    "level": "model_checking",
    "clauses": [
        "IdentityRegistration::is_authorized(now) <=> expires_at > now (strict)",
        "IdentityRegistryState::is_authorized(now, id) from an arbitrary wf registry state with <= 1 entry: Some <=> a session for "
        "id exists /\\ it expires strictly after now (c09_is_authorized_n0/_n1)",
        "[thorough, not discharged - see not_decided] inductive steps from an arbitrary wf state "
        "(associations injective /\\ sessions.keys == associations.values), |state| = N <= 3: "
        "add_identity (wf', key maps to id with the new expiry, superseded identity has neither session nor association, "
        "no other key maps to id, other entries unchanged, was_new <=> id had no session); "
        "clean_expired (wf', removes exactly the entries with expires_at <= now); "
        "is_authorized (Some <=> session exists /\\ expires_at > now)",
    ],
    "not_decided": [
        "the BTreeMap-based step harnesses c09_add_identity_n*, c09_clean_expired_n* and c09_is_authorized_n2/_n3: written and "
        "compiled, but not discharged: `[u8;32]: Ord` is memcmp (unwind 33) and B-tree node lengths are not "
        "constant-propagated by CBMC, so every key search unrolls 33 x 33; add_identity N=0/N=1 and clean_expired N=1 exceeded 3600 s on a calm machine. "
        "Tier experimental",
        "per-packet gate in SnapTunServer::handle_{incoming,outgoing}_packet_with_session (x25519/ChaCha20 state, rate limiter, "
        "Instant::now) and attribution of payloads to sessions",
        "IdentityRegistry::register computes now + lifetime: Instant overflow panics - precondition, not checked",
        "ArcSwap/Mutex wrapper IdentityRegistry::update_state (concurrency)",
    ],
    "assumptions": [
        "std::time::Instant on unix is {tv_sec: i64, tv_nsec: u32}; instants are built from that representation "
        "(Instant::now is a foreign call) - spot-checked against the public API by c09_instant_repr_sane",
    ],
    "trusted": ["std BTreeMap", "std Instant ordering"],
    "units": [
        {
            "id": "snap-control-identity-registry", "engine": "kani", "package": "snap-control",
            "crate_dir": "crates/snap/snap-control",
            "module": "/verif/kani/snap_control/identity_registry.rs",
            "mod_path": "server::identity_registry::verif_identity_registry",
            "hooks": [(IR, "mod verif_identity_registry;")],
            "anchors": [(IR, ["is_authorized", "add_identity", "clean_expired"])],
            "functions": ["IdentityRegistryState::add_identity", "IdentityRegistryState::clean_expired",
                          "IdentityRegistryState::is_authorized", "IdentityRegistration::is_authorized"],
            "harnesses": [
                H("c09_instant_repr_sane", "B", bound="4 concrete spot checks", what="harness sanity: Instant construction agrees with the API", timeout=600),
                H("c09_registration_strict", "B", bound="instants in [base, base+2^32 s), all nanoseconds",
                  what="registration authorised iff expiry strictly after now (loop-free)", timeout=600),
            ] + [
                H(f"c09_{op}_n{n}", "B",
                  tier=("quick" if (op == "is_authorized" and n <= 1) else "experimental"),
                  bound=_STEP_BOUND.replace("N", str(n), 1),
                  what=(f"{op} from an arbitrary wf state with {n} entries: Some <=> session exists and expires strictly after now"
                        if (op == "is_authorized" and n <= 1) else
                        f"{op} inductive step from an arbitrary wf state with {n} entries - NOT discharged within 3600 s"),
                  timeout=(1500 if op == "is_authorized" else 3600))
                for op in ("add_identity", "clean_expired", "is_authorized") for n in (0, 1, 2, 3)
            ],
        },
    ],
}
