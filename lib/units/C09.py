from registry import H

IR = "crates/snap/snap-control/src/server/identity_registry.rs"

_STEP_BOUND = ("state = exactly N entries under keys 'a'..; op key in {'a','b','c','d'}; identities symbolic 32 B; "
               "instants in [base, base+2^32 s)")

PROP = {
    "level": "model_checking",
    "clauses": [
        "IdentityRegistration::is_authorized(now) <=> expires_at > now (strict)",
        "[thorough, not discharged - see not_decided] inductive steps from an arbitrary wf state "
        "(associations injective /\\ sessions.keys == associations.values), |state| = N <= 3: "
        "add_identity (wf', key maps to id with the new expiry, superseded identity has neither session nor association, "
        "no other key maps to id, other entries unchanged, was_new <=> id had no session); "
        "clean_expired (wf', removes exactly the entries with expires_at <= now); "
        "is_authorized (Some <=> session exists /\\ expires_at > now)",
    ],
    "not_decided": [
        "all BTreeMap-based step harnesses (c09_add_identity_n*, c09_clean_expired_n*, c09_is_authorized_n*): written and "
        "compiled, but not discharged: `[u8;32]: Ord` is memcmp (unwind 33) and B-tree node lengths are not "
        "constant-propagated by CBMC, so every key search unrolls 33 x 33; even N=0/N=1 exceeded 1200 s (machine load ~47). "
        "Registered in tier thorough",
        "per-packet gate in SnapTunServer::handle_{incoming,outgoing}_packet_with_session (x25519/ChaCha20 state, rate limiter, "
        "Instant::now) and attribution of payloads to sessions",
        "IdentityRegistry::register computes now + lifetime: Instant overflow panics - precondition, not checked",
        "ArcSwap/Mutex wrapper IdentityRegistry::update_state (concurrency)",
    ],
    "assumptions": [
        "std::time::Instant on unix is {tv_sec: i64, tv_nsec: u32}; instants are built from that representation "
        "(Instant::now is a foreign call) - spot-checked against the public API by c09_instant_repr_sane",
    ],
    "trusted": ["std BTreeMap", "std Instant ordering"],
    "units": [
        {
            "id": "snap-control-identity-registry", "engine": "kani", "package": "snap-control",
            "crate_dir": "crates/snap/snap-control",
            "module": "/verif/kani/snap_control/identity_registry.rs",
            "mod_path": "server::identity_registry::verif_identity_registry",
            "hooks": [(IR, "mod verif_identity_registry;")],
            "anchors": [(IR, ["is_authorized", "add_identity", "clean_expired"])],
            "functions": ["IdentityRegistryState::add_identity", "IdentityRegistryState::clean_expired",
                          "IdentityRegistryState::is_authorized", "IdentityRegistration::is_authorized"],
            "harnesses": [
                H("c09_instant_repr_sane", "B", bound="4 concrete spot checks", what="harness sanity: Instant construction agrees with the API", timeout=600),
                H("c09_registration_strict", "B", bound="instants in [base, base+2^32 s), all nanoseconds",
                  what="registration authorised iff expiry strictly after now (loop-free)", timeout=600),
            ] + [
                H(f"c09_{op}_n{n}", "B", tier="experimental", bound=_STEP_BOUND.replace("N", str(n), 1),
                  what=f"{op} inductive step from an arbitrary wf state with {n} entries - NOT discharged within 1200 s",
                  timeout=3600)
                for op in ("add_identity", "clean_expired", "is_authorized") for n in (0, 1, 2, 3)
            ],
        },
    ],
}
