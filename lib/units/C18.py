from registry import H

RPC = "crates/libs/sciparse/src/scion/segment/rpc.rs"
SEG = "crates/libs/sciparse/src/scion/segment.rs"

PROP = {
    "level": "proof",
    "clauses": [
        "C18-1 RPC leaf conversions SegmentHopField, HopEntry, PeerEntry, SegmentInfo: try_from_rpc total (no panic) on every message; "
        "Ok <=> every field in range of its target type and sub-messages present (out-of-range => Err, no silent narrowing); "
        "try_from_rpc(m) == Ok(x) => into_rpc(x) == m; try_from_rpc(into_rpc(x)) == Ok(x)",
    ],
    "not_decided": [
        "C18-2 `AsEntry::associated_data` yields exactly `info.encoded || (hdr_body_0 || sig_0) || ... || (hdr_body_{k-1} || sig_{k-1})` for the entry at "
        "index k, and the reported length equals the sum [B(<= 3 entries, <= 2-byte blobs)]: harness c18_associated_data_prefix "
        "(kept in /verif/kani/sciparse/c18_signed.rs, not registered) exhausted memory in CBMC (28 GB after 15 min; take_while/flat_map/chain over "
        "Vec<Vec<u8>>). The duplicated-entry defect (prefix found by VALUE equality) is confirmed by a concrete cargo test instead: /verif/fixes/F-assoc-dup.md",
        "`SignedMessage::validate` structure: digest input = `header_and_body || associated data` in that order, key = `key_provider(header.key_id)`, "
        "result `Ok` <=> `verify` [A: ECDSA-P256/SHA-256 EUF-CMA, `p256`/`sha2`/`prost` decode are external]. The \"any bit flip is rejected\" clause is "
        "(2)+(3)+[A]; it is not proved beyond that reduction.",
        "`PathMetadata`/`ScionPath::try_from_rpc` totality on messages with inconsistent vector lengths [B(<= 3 interfaces)]: not run (time); "
        "by reading: every per-vector loop is guarded by a length equality, interface_count/2 - 1 is guarded by interface_count >= 2",
        "SignedAsEntry / SignedPathSegment / Segments::try_from_rpc (prost decode of nested bodies, HashMap): external decoder",
        "SegmentInfo.encoded: try_from_rpc re-encodes the info with prost instead of keeping the received bytes (observation: a non-canonical "
        "segment_info encoding changes the signed associated data)",
    ],
    "assumptions": [
        "ECDSA-P256 / SHA-2 / prost encode+decode are external and assumed correct (C18-3)",
        "MAC Vec lengths 0..=8 symbolic: the conversion only tests len() != 6",
    ],
    "trusted": ["p256", "sha2", "prost"],
    "units": [
        {
            "id": "sciparse-c18-rpc", "engine": "kani", "package": "sciparse",
            "crate_dir": "crates/libs/sciparse",
            "module": "/verif/kani/sciparse/c18_rpc.rs",
            "mod_path": "scion::segment::rpc::verif_c18_rpc",
            "hooks": [(RPC, "mod verif_c18_rpc;")],
            "anchors": [(RPC, ["try_from_rpc", "into_rpc"])],
            "functions": ["SegmentHopField::{try_from_rpc,into_rpc}", "HopEntry::{try_from_rpc,into_rpc}",
                          "PeerEntry::{try_from_rpc,into_rpc}", "SegmentInfo::{try_from_rpc,into_rpc}"],
            "harnesses": [
                H("c18_hop_field_from_rpc", "P", what="HopField: total, range, inverse"),
                H("c18_hop_field_round_trip", "P", what="HopField: round trip"),
                H("c18_hop_entry_from_rpc", "P", what="HopEntry: total, range, inverse"),
                H("c18_hop_entry_round_trip", "P", what="HopEntry: round trip"),
                H("c18_peer_entry_from_rpc", "P", what="PeerEntry: total, range, inverse"),
                H("c18_peer_entry_round_trip", "P", what="PeerEntry: round trip"),
                H("c18_segment_info_from_rpc", "P", what="SegmentInformation: total, range, inverse", timeout=1800),
                H("c18_segment_info_round_trip", "P", what="SegmentInfo: round trip", timeout=1800),
            ],
        },
        {
            "id": "sciparse-c18-signed", "engine": "kani", "package": "sciparse",
            "crate_dir": "crates/libs/sciparse",
            "module": "/verif/kani/sciparse/c18_signed.rs",
            "mod_path": "scion::segment::verif_c18_signed",
            "hooks": [(SEG, "pub(crate) mod verif_c18_signed;")],
            "anchors": [(SEG, ["associated_data", "validate_signature", "signature"])],
            "functions": ["AsEntry::associated_data"],
            "harnesses": [],
        },
    ],
}
