from registry import H

GRAPH = "crates/libs/sciparse/src/scion/path/combinator/graph.rs"
SEG = "crates/libs/sciparse/src/scion/segment.rs"
MODEL = "crates/libs/sciparse/src/proto/dataplane_path/standard/model.rs"

PROP = {
    "level": "model_checking",
    "clauses": [
        "search depth <= 3 edges (from C04-1: c04_add_edge_step_*), so the BFS holds at most E + E^2 + E^3 solutions",
        "a segment with more than 63 hop fields => StandardPath::wire_valid() is Err => path() is Err; required_size arithmetic total for all length bytes",
        "number_of_hops cannot underflow at its call sites (C04-4)",
    ],
    "not_decided": [
        "no-panic of the per-solution code [B(L)]: `PathSolution::path`, `initialize_segment_id` on segments with arbitrary entries (empty peer lists, "
        "zero/duplicate interface ids, out-of-range MTUs `as u16`, `peer` index vs. `peer_entries.len()`): every `expect`/index is justified or reported: "
        "harnesses c19_path_no_panic_l1/l2/l2_nopeers written; CBMC timed out at 1500 s each (machine load 40-70); not registered. By reading + concrete "
        "tests: the `expect(\"edges are checked to be not empty\")` is NOT justified (F-zero-ifid, panic in combine()), `as u16` truncates (F-mtu-trunc), "
        "total hop fields 65..79 are accepted (F-hops64); initialize_segment_id alone is covered by c01_segid_init_l3 (C01 unit)",
        "wall-time, behaviour of the `HashMap` machinery, \"segments that cannot contribute are ignored without affecting the others\" as a set-level statement",
        "add_core_segment/add_non_core_segment skip empty segments: harness c19_empty_segments_are_skipped (MultiGraph::new + HashMap::new under CBMC) "
        "did not finish in 15 min; by reading: both return Err before touching the map when last_ia()/first_ia() is None",
        "comparator order laws (sort_by total-order panic): C04-2 harness is thorough-tier only",
        "multi-edge solutions in path() (2-3 segments): not run; total hop fields > 64 across segments is finding F-hops64",
    ],
    "assumptions": [
        "c19_wire_valid_rejects_long_segment: the over-long hop list is a Vec with symbolic length and uninitialised contents (never read by wire_valid)",
    ],
    "trusted": ["tinyvec"],
    "units": [
        {
            "id": "sciparse-c19-graph", "engine": "kani", "package": "sciparse",
            "crate_dir": "crates/libs/sciparse",
            "module": "/verif/kani/sciparse/c19_graph.rs",
            "extra_files": ["/verif/kani/sciparse/c04_graph.rs", "/verif/kani/sciparse/c18_signed.rs"],
            "mod_path": "scion::path::combinator::graph::verif_c19_graph",
            "hooks": [(GRAPH, "mod verif_c19_graph;"), (GRAPH, "mod verif_c04_graph;"), (SEG, "pub(crate) mod verif_c18_signed;")],
            "anchors": [(GRAPH, ["path", "initialize_segment_id", "add_core_segment", "add_non_core_segment", "try_add_edge"]),
                        (MODEL, ["wire_valid", "required_size"])],
            "functions": ["PathSolution::path", "SolutionEdge::initialize_segment_id", "StandardPath::wire_valid",
                          "StandardPath::required_size (layout arithmetic)"],
            "harnesses": [
                H("c19_required_size_total", "P", what="encoded size arithmetic for all (u8,u8,u8)"),
                H("c19_wire_valid_rejects_long_segment", "B", bound="offending segment length any 64..=2^32 at any position; other segments 1 hop",
                  what=">63 hop fields in a segment => wire_valid Err", timeout=2400),
                H("c19_empty_segments_are_skipped", "B", tier="experimental", bound="2 segments", what="add_segments ignores empty segments without affecting the others - timed out at 900 s (HashMap)", timeout=3600),
                H("c19_path_no_panic_l1", "B", tier="experimental", bound="1 entry", what="PathSolution::path() never panics - timed out at 1500 s", timeout=3600),
                # written but NOT registered (CBMC timed out at 1500 s): c19_path_no_panic_l1/_l2/_l2_nopeers/_l3, c19_empty_segments_are_skipped
            ],
        },
        {
            "id": "sciparse-c19-depth", "engine": "kani", "package": "sciparse",
            "crate_dir": "crates/libs/sciparse",
            "module": "/verif/kani/sciparse/c04_graph.rs",
            "extra_files": ["/verif/kani/sciparse/c18_signed.rs"],
            "mod_path": "scion::path::combinator::graph::verif_c04_graph",
            "hooks": [(GRAPH, "mod verif_c04_graph;")],
            "anchors": [(GRAPH, ["valid_next_seg", "try_add_edge", "number_of_hops"])],
            "functions": ["PathSolution::try_add_edge", "number_of_hops"],
            "harnesses": [
                H("c04_add_edge_step_n2", "P", what="depth bound: third edge"),
                H("c04_add_edge_step_n3", "P", what="depth bound: a fourth edge is always rejected"),
                H("c04_number_of_hops_no_underflow", "P", what="number_of_hops total at its call sites"),
            ],
        },
    ],
}
