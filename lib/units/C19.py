from registry import H

GRAPH = "crates/libs/sciparse/src/scion/path/combinator/graph.rs"
SEG = "crates/libs/sciparse/src/scion/segment.rs"
MODEL = "crates/libs/sciparse/src/proto/dataplane_path/standard/model.rs"

PROP = {
    "level": "model_checking",
    "clauses": [
        "no-panic of PathSolution::path / SolutionEdge::initialize_segment_id on single-edge solutions over segments with ARBITRARY entries "
        "(zero / duplicate interface ids, arbitrary u32 MTUs, arbitrary peer entries, 0 or 1 peer entries) for edges as produced by "
        "add_core_segment/add_non_core_segment (shortcut index < len, peer index < peer_entries.len()); Ok(Some(p)) => p is a standard "
        "path with exactly the traversed hop fields and a non-empty interface list",
        "search depth <= 3 edges (from C04-1: c04_add_edge_step_*), so the BFS holds at most E + E^2 + E^3 solutions",
        "a segment with more than 63 hop fields => StandardPath::wire_valid() is Err => path() is Err; required_size arithmetic total for all length bytes",
        "number_of_hops cannot underflow at its call sites (C04-4)",
    ],
    "not_decided": [
        "wall-time, behaviour of the `HashMap` machinery, \"segments that cannot contribute are ignored without affecting the others\" as a set-level statement",
        "add_core_segment/add_non_core_segment skip empty segments: harness c19_empty_segments_are_skipped (MultiGraph::new + HashMap::new under CBMC) "
        "did not finish in 15 min; by reading: both return Err before touching the map when last_ia()/first_ia() is None",
        "comparator order laws (sort_by total-order panic): C04-2 harness is thorough-tier only",
        "multi-edge solutions in path() (2-3 segments): not run; total hop fields > 64 across segments is finding F-hops64",
    ],
    "assumptions": [
        "stubs: DpPathFingerprint::from_dp_path and PathFingerprint::try_from_scion_path replaced by constants (SHA-256)",
        "edges are well-formed w.r.t. their segment (shortcut_idx < len, peer < peer_entries.len(), core: idx 0/no peer): established by add_*_segment (read, not proved: HashMap)",
    ],
    "trusted": ["tinyvec"],
    "units": [
        {
            "id": "sciparse-c19-graph", "engine": "kani", "package": "sciparse",
            "crate_dir": "crates/libs/sciparse",
            "module": "/verif/kani/sciparse/c19_graph.rs",
            "extra_files": ["/verif/kani/sciparse/c04_graph.rs", "/verif/kani/sciparse/c18_signed.rs"],
            "mod_path": "scion::path::combinator::graph::verif_c19_graph",
            "hooks": [(GRAPH, "mod verif_c19_graph;"), (GRAPH, "mod verif_c04_graph;"), (SEG, "pub(crate) mod verif_c18_signed;")],
            "anchors": [(GRAPH, ["path", "initialize_segment_id", "add_core_segment", "add_non_core_segment", "try_add_edge"]),
                        (MODEL, ["wire_valid", "required_size"])],
            "functions": ["PathSolution::path", "SolutionEdge::initialize_segment_id", "StandardPath::wire_valid",
                          "StandardPath::required_size (layout arithmetic)"],
            "harnesses": [
                H("c19_required_size_total", "P", what="encoded size arithmetic for all (u8,u8,u8)"),
                H("c19_wire_valid_rejects_long_segment", "B", bound="offending segment length any 64..=2^32 at any position; other segments 1 hop",
                  what=">63 hop fields in a segment => wire_valid Err"),
                H("c19_path_no_panic_l1", "B", bound="1 edge, 1 entry, 1 peer entry", what="path() no panic, degenerate single-entry segment", timeout=1500),
                H("c19_path_no_panic_l2", "B", bound="1 edge, 2 entries, 1 peer entry each", what="path() no panic", timeout=1500),
                H("c19_path_no_panic_l2_nopeers", "B", bound="1 edge, 2 entries, empty peer lists", what="path() no panic", timeout=1500),
                H("c19_path_no_panic_l3", "B", tier="thorough", bound="1 edge, 3 entries, 1 peer entry each", what="path() no panic", timeout=3000),
            ],
        },
        {
            "id": "sciparse-c19-depth", "engine": "kani", "package": "sciparse",
            "crate_dir": "crates/libs/sciparse",
            "module": "/verif/kani/sciparse/c04_graph.rs",
            "extra_files": ["/verif/kani/sciparse/c18_signed.rs"],
            "mod_path": "scion::path::combinator::graph::verif_c04_graph",
            "hooks": [(GRAPH, "mod verif_c04_graph;")],
            "anchors": [(GRAPH, ["valid_next_seg", "try_add_edge", "number_of_hops"])],
            "functions": ["PathSolution::try_add_edge", "number_of_hops"],
            "harnesses": [
                H("c04_add_edge_step_n2", "P", what="depth bound: third edge"),
                H("c04_add_edge_step_n3", "P", what="depth bound: a fourth edge is always rejected"),
                H("c04_number_of_hops_no_underflow", "P", what="number_of_hops total at its call sites"),
            ],
        },
    ],
}
