from registry import H

DP = "crates/libs/sciparse/src/proto/dataplane_path/"
STDVIEW = DP + "standard/view.rs"
STDMODEL = DP + "standard/model.rs"
DPVIEW = DP + "view.rs"
OHVIEW = DP + "onehop/view.rs"
OHMODEL = DP + "onehop/model.rs"

B100 = "path byte strings <= 100 B (every segment-length triple with <= 6-7 hop fields incl. empty middle segments, all pointer values, all contents)"

PROP = {
    "level": "model_checking",
    "clauses": [
        "StandardPathView::try_reverse: Err => every byte unchanged, no panic, on every byte string accepted by the constructor "
        "(zero-length middle segment, pointers out of range, single-hop segments included)",
        "StandardPathView::try_reverse Ok on well-formed shapes: segment lengths reversed, hop fields reversed byte-for-byte, info fields "
        "reversed with CONS_DIR toggled, CurrHF' = total-1-CurrHF, CurrINF' = segments-1-CurrINF, reserved bits and trailing bytes kept",
        "involution: reverse(reverse(p)) == p byte-for-byte (view, all accepted inputs) / struct-equal (model)",
        "ScionDpPathViewExtMut::try_reverse / try_into_reversed: Err leaves the bytes unchanged (Standard, Unsupported, Empty variants)",
        "OneHopPathView::try_reverse: atomicity, exact spec, involution; OneHopPathView::expiration total and saturating, equal to the "
        "standard view on the same fields; one-hop view/model agreement on conversion and reversal (fixed 32 B: class P)",
    ],
    "not_decided": [
        "StandardPath (model) contracts and standard view/model agreement (model reversal atomicity/involution, to_model(encode(m)) == m, "
        "expiration, interface queries, calculate_segment_index, encode(model.try_reverse()) == bytes(view.try_reverse())): the harnesses "
        "c12_model_reverse_total_small / c12_agree_one_segment / c12_agree_two_segments / c12_agree_three_segments_t are written "
        "(/verif/kani/sciparse/std_view.rs) but NOT registered: with TinyVec<[HopField;12]>/ArrayVec<[Segment;3]> models CBMC ran out of "
        "memory (13 shapes in one harness) or exceeded 60 min (4 shapes) on the shared machine; they need one harness per shape. "
        "The view side of reversal is fully specified instead (C12.rev-spec), one-hop agreement is proved.",
        "ScionPath::try_reverse (scion/path.rs): its only fallible step is `self.dp_path.try_reverse()?` as the FIRST statement "
        "(anchor checked textually), so Err-atomicity reduces to the view contracts above; the Ok path recomputes SHA-256 fingerprints "
        "and is not run symbolically",
        "DpPath::try_reverse on the OneHop variant converts to a Standard path by design (documented), whereas the view stays one-hop: "
        "not compared",
        "OneHopPath::set_second_hop (model) sets ExpTime 0 and clears flags whereas OneHopPathView::set_second_hop copies the first "
        "hop's ExpTime: observation, not claimed",
    ],
    "assumptions": [],
    "trusted": [],
    "units": [
        {
            "id": "sciparse-std-view", "engine": "kani", "package": "sciparse",
            "crate_dir": "crates/libs/sciparse",
            "module": "/verif/kani/sciparse/std_view.rs",
            "mod_path": "proto::dataplane_path::standard::view::verif_std_view",
            "hooks": [(STDVIEW, "mod verif_std_view;")],
            "anchors": [(STDVIEW, ["try_reverse", "expiration", "calculate_segment_index", "_calculate_segment_index",
                                   "info_fields_mut", "hop_fields_mut"]),
                        (DPVIEW, ["try_reverse", "try_into_reversed", "first_egress_interface", "last_ingress_interface",
                                  "current_egress_interface", "current_ingress_interface"]),
                        ("crates/libs/sciparse/src/scion/path.rs",
                         ["try_reverse", "try_reverse(&mut self) -> Result<(), PathReverseError> {\n        self.dp_path.try_reverse()?;"])],
            "functions": ["StandardPathView::try_reverse", "StandardPath::try_reverse", "StandardPathView::expiration",
                          "StandardPath::expiration", "StandardPathView::calculate_segment_index",
                          "ScionDpPathViewExtMut::try_reverse", "ScionDpPathViewExtMut::try_into_reversed",
                          "ScionDpPathViewExt::{first_egress,last_ingress,current_egress,current_ingress}_interface",
                          "StandardPath::from_view", "StandardPath::encode_unchecked"],
            "harnesses": [
                H("c12_view_reverse_atomic_n100", "B", bound=B100, what="view reversal: Err => bytes unchanged, total, position", timeout=3000),
                H("c12_view_reverse_spec_n100", "B", bound=B100, what="view reversal: functional spec on well-formed shapes", timeout=3000),
                H("c12_view_reverse_involution_n100", "B", bound=B100, what="view reversal is an involution", timeout=3000),
                H("c12_agree_one_segment", "B", tier="experimental", bound="1 segment x 1..=3 hop fields, all pointer values", what="standard view/model agreement (to_model.encode, expiration, interface queries, segment index, reversal) - ran out of memory / time", timeout=3600),
                H("c12_agree_two_segments", "B", tier="experimental", bound="2 segments x <= 2 hop fields", what="standard view/model agreement - timed out at 60 min", timeout=5400),
                H("c12_model_reverse_total_small", "B", tier="experimental", bound="13 small shapes", what="StandardPath::try_reverse (model): atomic, total, involution - ran out of memory", timeout=3600),
                H("c12_dp_view_reverse_atomic_n64", "B", bound="path byte strings <= 64 B", what="ScionDpPathViewExtMut wrappers: Err => bytes unchanged", timeout=3000),
                H("c12_dp_view_reverse_other_variants", "P", what="Unsupported / Empty variants", timeout=900),
            ],
        },
        {
            "id": "sciparse-onehop-c12", "engine": "kani", "package": "sciparse",
            "crate_dir": "crates/libs/sciparse",
            "module": "/verif/kani/sciparse/onehop_view.rs",
            "mod_path": "proto::dataplane_path::onehop::view::verif_onehop_view",
            "hooks": [(OHVIEW, "mod verif_onehop_view;")],
            "anchors": [(OHVIEW, ["try_reverse", "expiration"]), (OHMODEL, ["try_reverse", "encode_unchecked", "from_view"])],
            "functions": ["OneHopPathView::try_reverse", "OneHopPathView::expiration", "OneHopPath::try_reverse",
                          "OneHopPath::from_view", "OneHopPath::encode_unchecked"],
            "harnesses": [
                H("c12_onehop_view_reverse", "P", what="one-hop view reversal: atomic, exact, involution", timeout=1800),
                H("c12_onehop_expiration_total", "P", what="one-hop expiry total + saturating", timeout=1800),
                H("c12_onehop_expiration_agrees_with_standard", "P", what="one-hop expiry == standard-view expiry of the same fields", timeout=1800),
                H("c12_onehop_agree_reverse", "P", what="one-hop view/model agreement: conversion, reversal", timeout=1800),
            ],
        },
    ],
}
