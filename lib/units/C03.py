from registry import H

SP = "crates/libs/sciparse/src/"
CRATE = "crates/libs/sciparse"

PROP = {
    "level": "model_checking",
    "clauses": [
        "(1) leaf round trips: InfoField, HopField, WireHostAddr V4/V6/Svc/Unknown 4-16: encode writes exactly required_size bytes, "
        "wire format per spec, decode(encode(m)) == m",
        "(2) independent spec reader (explicit byte offsets, no Layout tables) reads version/TC/flow/next-hdr/HdrLen/PayloadLen/"
        "path type/DT-DL-ST-SL/ISD-AS/hosts/CurrINF/CurrHF/SegLens/info+hop fields from every encoding of a symbolic header model "
        "(empty, one-hop, standard <= 2x2)",
        "(3) whole UDP packet (empty path, payload <= 8): exact size, HdrLen*4, PayloadLen, UDP length, checksum verifies against an RFC 1071 spec",
        "(4) checksum core: add_slice == RFC 1071 sum at both pointer alignments (len <= 64 quick / 256 thorough); add_u16/u32/u64/fold/checksum full domain",
        "(5) no silent truncation: wire_valid()==Ok => header <= 1020 and multiple of 4, payload <= 65535, UDP 8+len <= 65535 (payload length symbolic <= 70000)",
    ],
    "not_decided": [
        "clauses (2) and (3): harnesses c03_hdr_spec_empty_onehop, c03_hdr_spec_standard_2x2, c03_udp_packet_empty_path compile and start, "
        "but were not run to completion in round 2 (verifier killed after 7 min on a machine at load 50); registered in tier thorough until measured",
        "clause (4) add_slice: c03_cksum_add_slice_{aligned,unaligned}_{64,256} compile and start but did not finish within 12 min under load "
        "(u16 fold over a symbolic-length slice + byte-wise spec loop); in tier thorough until measured / decomposed; "
        "the alignment decision (c03_cksum_alignment_witness) and add_u16/u32/u64/fold/checksum (c03_cksum_words_fold) are proved",
        "(6) canonical re-encode of accepted byte strings: not implemented in this round",
        "(3) for SCMP packets and for UDP packets over standard paths: not implemented in this round",
        "fixed SCMP message headers leaf round trips: not implemented in this round",
        "non-canonical models: WireHostAddr::Unknown with id >= 4 or a type nibble equal to IPv4/IPv6/SVC, DpPath::Unsupported with "
        "path_type Empty/Scion/OneHop/Other(0..=4), StandardPath.current_hop_field >= 64 (6-bit CurrHF) are accepted by wire_valid "
        "but cannot round trip; excluded from the leaf harness by `canonical_unknown`, recorded as observations",
    ],
    "assumptions": [],
    "trusted": [],
    "units": [
        {
            "id": "sciparse-c03-codec", "engine": "kani", "package": "sciparse", "crate_dir": CRATE,
            "module": "/verif/kani/sciparse/c03_codec.rs",
            "mod_path": "proto::packet::model::verif_c03_codec",
            "hooks": [(SP + "proto/packet/model.rs", "mod verif_c03_codec;")],
            "anchors": [
                (SP + "proto/packet/model.rs", ["wire_valid", "encode_unchecked", "required_size"]),
                (SP + "proto/header/model.rs", ["wire_valid", "encode_unchecked", "try_encode", "required_size"]),
                (SP + "proto/payload/udp/model.rs", ["wire_valid", "encode_unchecked"]),
                (SP + "proto/payload/encode.rs", ["wire_valid"]),
                (SP + "core/encode.rs", ["try_encode_to_vec", "try_encode"]),
                (SP + "scion/address/host_addr.rs", ["try_from_parts", "encode_unchecked", "addr_type"]),
            ],
            "functions": [],
            "harnesses": [
                H("c03_no_trunc_udp", "P", what="wire_valid()==Ok => header <= 1020, UDP datagram <= 65535 (payload length symbolic <= 70000)"),
                H("c03_no_trunc_raw", "P", what="wire_valid()==Ok => header <= 1020, raw payload <= 65535 (payload length symbolic <= 70000)"),
                H("c03_leaf_info_hop", "P", what="InfoField / HopField encode exact size, wire format, round trip"),
                H("c03_leaf_host_addr_known", "P", what="WireHostAddr V4/V6/Svc encode, nibble, round trip"),
                H("c03_leaf_host_addr_unknown", "P", what="WireHostAddr Unknown 4/8/12/16 (canonical ids) encode, nibble, round trip"),
                H("c03_hdr_spec_empty_onehop", "P", tier="experimental", what="header with empty / one-hop path: independent spec reader, lengths, round trip", timeout=1800),
                H("c03_hdr_spec_standard_2x2", "B", tier="experimental", bound="<= 2 segments x <= 2 hops", what="header with standard path: independent spec reader, lengths, round trip", timeout=1800),
                H("c03_udp_packet_empty_path", "B", tier="experimental", bound="UDP payload <= 8 bytes, empty path", what="whole UDP packet: size, HdrLen, PayloadLen, UDP length, checksum verifies (RFC 1071 spec)", timeout=1800),
            ],
        },
        {
            "id": "sciparse-c03-checksum", "engine": "kani", "package": "sciparse", "crate_dir": CRATE,
            "module": "/verif/kani/sciparse/c03_checksum.rs",
            "mod_path": "scion::checksum::verif_c03_checksum",
            "hooks": [(SP + "scion/checksum.rs", "mod verif_c03_checksum;")],
            "anchors": [(SP + "scion/checksum.rs", ["add_slice", "add_u64", "add_u32", "add_u16", "fold_checksum", "checksum"])],
            "functions": ["ChecksumDigest::add_slice", "ChecksumDigest::add_u64", "ChecksumDigest::add_u32",
                          "ChecksumDigest::add_u16", "ChecksumDigest::fold_checksum", "ChecksumDigest::checksum"],
            "harnesses": [
                H("c03_cksum_alignment_witness", "P", what="align_offset decision follows the address parity"),
                H("c03_cksum_words_fold", "P", what="add_u16/add_u32/add_u64/fold_checksum/checksum, full domain"),
                H("c03_cksum_add_slice_aligned_8", "B", bound="slice length <= 8", what="add_slice == RFC 1071 sum incl. both end-around carries, even start address"),
                H("c03_cksum_add_slice_unaligned_8", "B", bound="slice length <= 8", what="add_slice == RFC 1071 sum incl. both end-around carries, odd start address"),
                H("c03_cksum_add_slice_aligned_64", "B", tier="experimental", bound="slice length <= 64", what="add_slice == RFC 1071 sum, even start address"),
                H("c03_cksum_add_slice_unaligned_64", "B", tier="experimental", bound="slice length <= 64", what="add_slice == RFC 1071 sum, odd start address"),
                H("c03_cksum_add_slice_aligned_256", "B", tier="experimental", bound="slice length <= 256", what="add_slice == RFC 1071 sum, even start address", timeout=3600),
                H("c03_cksum_add_slice_unaligned_256", "B", tier="experimental", bound="slice length <= 256", what="add_slice == RFC 1071 sum, odd start address", timeout=3600),
            ],
        },
    ],
}
