from registry import H

PS = "crates/scion-stack/src/path/manager/pathset.rs"

PROP = {
    "level": "model_checking",
    "clauses": [
        "check_path_expiry(path, now, threshold) [P]: Expired <=> expiry <= now; NearExpiry <=> 0 < expiry - now <= threshold; "
        "Valid otherwise; total (no SystemTime/Duration overflow) for every u32 expiry, now and threshold below 2^33 s. "
        " This is the predicate the worker uses to drop expired paths and to schedule refetches.",
    ],
    "not_decided": [
        "'not expired at the instant of hand-out' and 'never left without a path while one is valid': invariants of the async "
        "per-pair worker (fetch_and_update, maintain, timers, ArcSwap slot) over all event interleavings - not reachable",
        "merge_new_paths_algo bound (cached paths <= configured maximum): needs PathManagerPath/PathStrategy (f32 scorers, "
        "SHA-256 fingerprints compared as [u8;32]) - not attempted within budget",
        "PathIssueManager::{add_issue,pop_front} bounds (HashMap/VecDeque/tokio broadcast) - not attempted within budget "
        "(F-issue-fifo of DESIGN section 5 stays 'read', neither confirmed nor refuted)",
        "refetch schedule (min delay / backoff ceiling): inlined in an async fn; ExponentialBackoff uses f32 powi + rand",
    ],
    "assumptions": [
        "the harness path takes its expiry from PathMetadata (empty dataplane path); ScionPath::expiration() is "
        "`_expiration.or(metadata.expiration as u32)`",
    ],
    "trusted": ["std SystemTime/Duration arithmetic as modelled by Kani"],
    "units": [
        {
            "id": "scion-stack-pathset", "engine": "kani", "package": "scion-stack",
            "crate_dir": "crates/scion-stack",
            "module": "/verif/kani/scion_stack/pathset.rs",
            "mod_path": "path::manager::pathset::verif_pathset",
            "hooks": [(PS, "mod verif_pathset;")],
            "anchors": [(PS, ["check_path_expiry", "merge_new_paths_algo"])],
            "functions": ["check_path_expiry"],
            "harnesses": [
                H("c06_expiry_classification", "B", tier="experimental", bound="every u32 expiry; now and threshold < 2^33 s (year 2242), all nanoseconds", what="expiry classification == spec in integer nanoseconds", timeout=1800),
            ],
        },
    ],
}
