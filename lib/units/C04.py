from registry import H

GRAPH = "crates/libs/sciparse/src/scion/path/combinator/graph.rs"
SEG = "crates/libs/sciparse/src/scion/segment.rs"
STUBS = ("stubs: DpPathFingerprint::from_dp_path and PathFingerprint::try_from_scion_path (SHA-256 over the interface list) "
         "are replaced by constants in the path() harnesses; fingerprints are not part of any claimed clause")

PROP = {
    "level": "model_checking",
    "clauses": [
        "C04-1 PathSolution::valid_next_seg / try_add_edge: accepted kind sequences are exactly {nc, c, nc.nc, nc.c, c.nc, nc.c.nc}; "
        "inductive step from an arbitrary solution whose kinds are in the rule; edges.len() <= 3 (3-slot ArrayVec push in path() cannot fail)",
        "C04-2 the comparator of MultiGraph::get_paths is a total preorder on solutions with <= 3 edges (reflexive, antisymmetric, "
        "transitive), primary key cost, secondary key edge count",
        "C04-3 metadata of PathSolution::path() for single-edge solutions over L<=3 symbolic entries (1 peer entry each): hop fields copied "
        "bit for bit in travel order, CONS_DIR/PEERING flags, interface list = travel-order link ends, MTU = min over AS / ingress / "
        "peer MTUs (AS MTU saturated to u16), metadata.expiration = earliest hop expiry = expiry of the encoded path, src/dst = first/last AS",
        "C04-4 number_of_hops: no underflow/overflow under len >= 1 && idx < len, for every usize length",
    ],
    "not_decided": [
        "exactness of the *set* of returned paths (soundness + completeness against an independent enumerator), duplicate-freedom via "
        "SHA-256 fingerprints in a `HashMap`, permutation independence of the input lists, the `> 2` occurrences loop filter. These need "
        "whole-algorithm reasoning over nested hash maps of references and a BFS queue; Verus cannot take the code (generic `Entry`, "
        "`HashMap<&InputSegment,...>`, closures), Kani's HashMap model makes even a 2-segment BFS intractable.",
        "C04-3 for 2- and 3-edge solutions (interface list / MTU / expiry across segment boundaries): not run (time); the per-edge loop body is the same code",
        "C04-3 interface list when traversed hop fields carry interface id 0 (the code drops id 0 silently)",
    ],
    "assumptions": [
        STUBS,
        "C04-1 requires cost + weight not to overflow u64 (holds for number_of_hops: weight <= segment length)",
        "C04-2: the sort closure is anonymous; the harness checks a verbatim copy (`sort_cmp`) tied to the source by a textual anchor",
        "C04-3 requires non-zero interface ids on traversed links and ingress id/MTU 0 on the first entry (well-formed beacon)",
    ],
    "trusted": ["tinyvec ArrayVec/TinyVec (verified inside harness reach only)"],
    "units": [
        {
            "id": "sciparse-c04-graph", "engine": "kani", "package": "sciparse",
            "crate_dir": "crates/libs/sciparse",
            "module": "/verif/kani/sciparse/c04_graph.rs",
            "extra_files": ["/verif/kani/sciparse/c18_signed.rs"],
            "mod_path": "scion::path::combinator::graph::verif_c04_graph",
            "hooks": [(GRAPH, "mod verif_c04_graph;"), (SEG, "pub(crate) mod verif_c18_signed;")],
            "anchors": [(GRAPH, ["valid_next_seg", "try_add_edge", "number_of_hops", "get_paths", "path",
                                 "let d = a.cost.cmp(&b.cost).then(a.edges.len().cmp(&b.edges.len()));",
                                 "let d = edge_a.edge.peer.cmp(&edge_b.edge.peer);",
                                 "let d = edge_a.segment.id().cmp(edge_b.segment.id());"])],
            "functions": ["PathSolution::valid_next_seg", "PathSolution::try_add_edge", "PathSolution::new",
                          "PathSolution::path", "number_of_hops", "MultiGraph::get_paths (sort closure)"],
            "harnesses": [
                H("c04_seq_table_n0", "P", what="valid_next_seg == rule, 0 existing edges"),
                H("c04_seq_table_n1", "P", what="valid_next_seg == rule, 1 existing edge of any kind"),
                H("c04_seq_table_n2", "P", what="valid_next_seg == rule, 2 existing edges of any kinds"),
                H("c04_seq_table_n3", "P", what="valid_next_seg == rule, 3 existing edges"),
                H("c04_seq_table_n4", "P", what="valid_next_seg catch-all arm"),
                H("c04_add_edge_step_n0", "P", what="try_add_edge inductive step from the empty solution"),
                H("c04_add_edge_step_n1", "P", what="try_add_edge inductive step, 1 edge"),
                H("c04_add_edge_step_n2", "P", what="try_add_edge inductive step, 2 edges"),
                H("c04_add_edge_step_n3", "P", what="try_add_edge inductive step, 3 edges: always rejected"),
                H("c04_new_solution_is_empty", "P", what="base case"),
                H("c04_number_of_hops_no_underflow", "P", what="number_of_hops total under len>=1 && idx<len, all usize lengths"),
                H("c04_sort_cmp_total_preorder", "B", tier="thorough", bound="<=3 edges per solution, segment ids differ in one symbolic byte",
                  what="comparator order laws on symbolic triples", timeout=3000),
                H("c04_meta_single_edge_l2", "B", bound="1 edge, 2 entries, 1 peer entry each", what="metadata truthfulness", timeout=1500),
                H("c04_meta_single_edge_l3", "B", tier="thorough", bound="1 edge, 3 entries, 1 peer entry each", what="metadata truthfulness", timeout=3000),
            ],
        },
    ],
}
