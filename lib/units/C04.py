from registry import H

GRAPH = "crates/libs/sciparse/src/scion/path/combinator/graph.rs"
SEG = "crates/libs/sciparse/src/scion/segment.rs"
STUBS = ("stubs: DpPathFingerprint::from_dp_path and PathFingerprint::try_from_scion_path (SHA-256 over the interface list) "
         "are replaced by constants in the path() harnesses; fingerprints are not part of any claimed clause")

PROP = {
    "level": "proof",
    "clauses": [
        "C04-1 PathSolution::valid_next_seg / try_add_edge: accepted kind sequences are exactly {nc, c, nc.nc, nc.c, c.nc, nc.c.nc}; "
        "inductive step from an arbitrary solution whose kinds are in the rule; edges.len() <= 3 (3-slot ArrayVec push in path() cannot fail)",
        "C04-4 number_of_hops: no underflow/overflow under len >= 1 && idx < len, for every usize length",
    ],
    "not_decided": [
        "C04-2 ordering comparator of `get_paths` [B(<=3 edges)]: on symbolic triples of solutions the closure is a total preorder (antisymmetric, "
        "transitive, total) and sorts primarily by `cost`, then by edge count: harness c04_sort_cmp_total_preorder written, CBMC timed out at 900 s under load; re-tried alone on an idle machine in round 3: CBMC 28 GB + kissat 27 GB RSS and no verdict after 14 min, stopped before the OOM killer "
        "(three 32-byte SegmentID comparisons per edge pair); not registered",
        "C04-3 metadata truthfulness of every built path [B(L)]: interface list = travel-order (egress, ingress) pairs of the encoded hop fields with "
        "the first ingress/last egress omitted; MTU = min over AS MTUs, ingress MTUs of traversed links and peer MTU; `metadata.expiration` = min over "
        "hops of `timestamp + (exp+1)*337.5 s` = `StandardPath::expiration`; `src/dst` = first/last interface AS: harnesses c04_meta_single_edge_l2/l3 "
        "written, not run to completion (PathSolution::path() alone did not finish in 25 min in CBMC: TinyVec<[HopField;12]> x ArrayVec<[Segment;3]> "
        "defaults, encode, view parse); not registered. The MTU clause is violated on the unchanged tree by concrete test (F-mtu-trunc)",
        "exactness of the *set* of returned paths (soundness + completeness against an independent enumerator), duplicate-freedom via "
        "SHA-256 fingerprints in a `HashMap`, permutation independence of the input lists, the `> 2` occurrences loop filter. These need "
        "whole-algorithm reasoning over nested hash maps of references and a BFS queue; Verus cannot take the code (generic `Entry`, "
        "`HashMap<&InputSegment,...>`, closures), Kani's HashMap model makes even a 2-segment BFS intractable.",
    ],
    "assumptions": [
        "C04-1 requires cost + weight not to overflow u64 (holds for number_of_hops: weight <= segment length)",
    ],
    "trusted": ["tinyvec ArrayVec/TinyVec (verified inside harness reach only)"],
    "units": [
        {
            "id": "sciparse-c04-graph", "engine": "kani", "package": "sciparse",
            "crate_dir": "crates/libs/sciparse",
            "module": "/verif/kani/sciparse/c04_graph.rs",
            "extra_files": ["/verif/kani/sciparse/c18_signed.rs"],
            "mod_path": "scion::path::combinator::graph::verif_c04_graph",
            "hooks": [(GRAPH, "mod verif_c04_graph;"), (SEG, "pub(crate) mod verif_c18_signed;")],
            "anchors": [(GRAPH, ["valid_next_seg", "try_add_edge", "number_of_hops", "get_paths", "path",
                                 "let d = a.cost.cmp(&b.cost).then(a.edges.len().cmp(&b.edges.len()));",
                                 "let d = edge_a.edge.peer.cmp(&edge_b.edge.peer);",
                                 "let d = edge_a.segment.id().cmp(edge_b.segment.id());"])],
            "functions": ["PathSolution::valid_next_seg", "PathSolution::try_add_edge", "PathSolution::new",
                          "PathSolution::path", "number_of_hops", "MultiGraph::get_paths (sort closure)"],
            "harnesses": [
                H("c04_seq_table_n0", "P", what="valid_next_seg == rule, 0 existing edges"),
                H("c04_seq_table_n1", "P", what="valid_next_seg == rule, 1 existing edge of any kind"),
                H("c04_seq_table_n2", "P", what="valid_next_seg == rule, 2 existing edges of any kinds"),
                H("c04_seq_table_n3", "P", what="valid_next_seg == rule, 3 existing edges"),
                H("c04_seq_table_n4", "P", what="valid_next_seg catch-all arm"),
                H("c04_add_edge_step_n0", "P", what="try_add_edge inductive step from the empty solution"),
                H("c04_add_edge_step_n1", "P", what="try_add_edge inductive step, 1 edge"),
                H("c04_add_edge_step_n2", "P", what="try_add_edge inductive step, 2 edges"),
                H("c04_add_edge_step_n3", "P", what="try_add_edge inductive step, 3 edges: always rejected"),
                H("c04_new_solution_is_empty", "P", what="base case"),
                H("c04_number_of_hops_no_underflow", "P", what="number_of_hops total under len>=1 && idx<len, all usize lengths"),
                H("c04_sort_cmp_keys_pair_e1", "B", tier="experimental", bound="<= 1 edge per solution, pairs only", what="get_paths comparator: reflexive, antisymmetric, primary key cost, secondary key edge count (no transitivity) - round 3: CBMC grew to 36 GB in 4 min without reaching the solver, stopped; the cost is in the symbolic Vec of SolutionEdge + 32-byte id compare, not in the number of solutions", timeout=900),
                H("c04_sort_cmp_total_preorder", "B", tier="experimental", bound="<= 3 edges", what="get_paths comparator is a total preorder (cost, then edge count) - timed out at 900 s", timeout=3600),
                H("c04_meta_single_edge_l2", "B", tier="experimental", bound="1 edge, 2 entries", what="metadata truthfulness of PathSolution::path() - intractable (TinyVec + encode + SHA-256)", timeout=3600),
                # written but NOT registered (did not discharge, see not_decided): c04_sort_cmp_total_preorder,
                # c04_meta_single_edge_l2, c04_meta_single_edge_l3
            ],
        },
    ],
}
