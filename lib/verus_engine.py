"""Engine V: mechanical extraction of functions from the repository + contract overlay, checked
by Verus (single file).  See DESIGN.md section 1.3 / 3-C16 and verus/acl.overlay.

run_unit(unit, prop, tier, workdir, repo, verif) -> dict consumed by vcheck.py with keys
  cmd, assumptions, obligations, discharged, solver_s, samples, distinct, evidence,
  kind in {ok, violated, undecided}, reason, failed [{"description":..}], replay, version

unit = {"id":.., "engine":"verus", "overlay": "<verif>/verus/<x>.overlay", "anchors":[..],
        "functions":[..], "paired_kani": "<harness name>", "rlimit": 20}

What is done on EVERY run (nothing is cached, nothing is hand-copied):
  1. the overlay is parsed; it lists the items to extract (`@@ type`, `@@ impl`, `@@ const`,
     `@@ fn`) and, per item, the contract text to splice (`ret`, `requires`, `ensures`, `@@ loop`
     invariants, `@@ insert` proof blocks, `@@ rewrite` textual rewrites, `@@ closure` contracts);
  2. every item is located in the CURRENT source text of `repo` with a brace-matching scanner
     (string/char/comment aware) keyed on `impl <Type> {` / `fn <name>` / `const <NAME>` /
     `struct|enum <Name>`; the function BODY text is taken verbatim;
  3. the fixed list of rewrites below is applied; each must apply exactly once at its anchor,
     otherwise the result is `undecided: lost anchor` (never a violation);
  4. the single file is written to the work dir and `verus <file> --output-json --time` is run.

Fixed rewrite classes (the instances are listed in the overlay, the classes are closed):
  RW-ATTR    attributes (`#[inline]`, `#[cfg_attr..]`, `#[repr..]`, `#[schema..]`), doc comments and
             ordinary comments are dropped; derive lists are reduced to their intersection with
             {Clone, Copy, PartialEq, Eq} (Verus cannot take serde/utoipa/Hash/Ord/Debug derives).
             Type definitions are otherwise re-emitted from the source field / variant lists.
  RW-SIG     `-> T {` of a function under contract becomes `-> (<ret>: T) requires.. ensures.. {`.
  RW-CONST   `const N: T = EXPR;` with a `@@ const` contract becomes
             `exec const N: T ensures .. { <proof lines>; EXPR }` (EXPR verbatim from the source).
  RW-LOOP    the k-th `for PAT in EXPR {` of a function becomes
             `for PAT in <ghost>: EXPR <invariant/invariant_except_break/ensures clauses> {`
             (PAT, EXPR verbatim).
  RW-TEXT    `@@ rewrite`: an exact source substring of a function body is replaced by the listed
             text (used once: `=> continue,` as last arm of a `for` body -> `=> {}`, Verus rejects
             `continue` in `for`).
  RW-CLOSURE `|x| BODY` (the single closure of a function) becomes
             `|x: T| -> (<ret>: U) ensures .. { BODY }` (BODY verbatim) - Verus needs closure contracts.
  RW-INSERT  `@@ insert`: a `proof { .. }` block is inserted before an exact source substring.
  RW-EQSPEC  for types marked `eqspec` an `impl PartialEqSpecImpl` stating that the derived
             `PartialEq` is structural equality is generated (trusted: rustc's derive).
Not extracted: trait impl wrappers (`impl PathPolicy for AclPolicy`, `FromStr`, `Display`), parsers,
constructors, `matches_any_in` iterator helpers, tests.
"""
import json
import os
import re
import subprocess
import time

ALLOWED_DERIVES = ["Clone", "Copy", "PartialEq", "Eq"]


class LostAnchor(Exception):
    pass


# ----------------------------------------------------------------------------------------------
# Rust-text scanner
# ----------------------------------------------------------------------------------------------

def _skip_trivia(s, i):
    """If s[i] starts a comment / string / char literal return the index just after it, else i."""
    n = len(s)
    c = s[i]
    if c == "/" and i + 1 < n:
        if s[i + 1] == "/":
            j = s.find("\n", i)
            return n if j < 0 else j
        if s[i + 1] == "*":
            depth, j = 1, i + 2
            while j < n and depth:
                if s.startswith("/*", j):
                    depth += 1
                    j += 2
                elif s.startswith("*/", j):
                    depth -= 1
                    j += 2
                else:
                    j += 1
            return j
    if c == '"':
        j = i + 1
        while j < n and s[j] != '"':
            j += 2 if s[j] == "\\" else 1
        return j + 1
    if c == "r" and i + 1 < n and s[i + 1] in '#"' and (i == 0 or not (s[i - 1].isalnum() or s[i - 1] == "_")):
        m = re.match(r'r(#*)"', s[i:])
        if m:
            close = '"' + m.group(1)
            j = s.find(close, i + len(m.group(0)))
            return n if j < 0 else j + len(close)
    if c == "'":
        if i + 1 < n and s[i + 1] == "\\":
            j = s.find("'", i + 2)
            return j + 1
        if i + 2 < n and s[i + 2] == "'":
            return i + 3
        return i  # lifetime
    return i


def match_close(s, i, open_c="{", close_c="}"):
    """s[i] == open_c; return index of the matching close_c."""
    assert s[i] == open_c
    depth, j, n = 0, i, len(s)
    while j < n:
        k = _skip_trivia(s, j)
        if k != j:
            j = k
            continue
        if s[j] == open_c:
            depth += 1
        elif s[j] == close_c:
            depth -= 1
            if depth == 0:
                return j
        j += 1
    raise LostAnchor("unbalanced " + open_c)


def code_positions(s, pat, depth0_only=False):
    """Positions of regex matches that are in code (not comment/string); optionally only at brace depth 0."""
    out, j, n, depth, last_end = [], 0, len(s), 0, -1
    rx = re.compile(pat)
    while j < n:
        k = _skip_trivia(s, j)
        if k != j:
            j = k
            continue
        if s[j] == "{":
            depth += 1
        elif s[j] == "}":
            depth -= 1
        else:
            m = rx.match(s, j)
            if m and j >= last_end and (not depth0_only or depth == 0) and \
                    (j == 0 or not (s[j - 1].isalnum() or s[j - 1] == "_")):
                out.append(m)
                last_end = m.end()
        j += 1
    return out


def strip_comments_attrs(s):
    """RW-ATTR on an extracted text: drop comments and #[..] attributes (string aware)."""
    out, j, n = [], 0, len(s)
    while j < n:
        if s.startswith("//", j) or s.startswith("/*", j):
            j = _skip_trivia(s, j)
            continue
        if s[j] == "#" and j + 1 < n and s[j + 1] == "[":
            j = match_close(s, j + 1, "[", "]") + 1
            continue
        k = _skip_trivia(s, j)
        if k != j:
            out.append(s[j:k])
            j = k
            continue
        out.append(s[j])
        j += 1
    txt = "".join(out)
    lines = [l.rstrip() for l in txt.split("\n")]
    res = []
    for l in lines:  # squeeze blank lines
        if l == "" and (not res or res[-1] == ""):
            continue
        res.append(l)
    return "\n".join(res).strip("\n")


def find_impl_body(text, tname, relfile):
    ms = code_positions(text, r"impl\s+" + re.escape(tname) + r"\s*\{", depth0_only=True)
    if len(ms) != 1:
        raise LostAnchor(f"{relfile}: inherent `impl {tname} {{` found {len(ms)} times")
    ob = ms[0].end() - 1
    cb = match_close(text, ob)
    return text[ob + 1:cb]


def find_fn(body, fname, where):
    ms = code_positions(body, r"fn\s+" + re.escape(fname) + r"\b", depth0_only=True)
    if len(ms) != 1:
        raise LostAnchor(f"{where}: `fn {fname}` found {len(ms)} times")
    m = ms[0]
    ls = body.rfind("\n", 0, m.start()) + 1
    quals = body[ls:m.start()]
    if not re.fullmatch(r"\s*(pub(\([a-z]+\))?\s+)?(const\s+)?", quals):
        raise LostAnchor(f"{where}: unexpected qualifiers before fn {fname}: {quals!r}")
    # signature ends at the first `{` outside parentheses / angle-free scan
    j, n, par = m.end(), len(body), 0
    while j < n:
        k = _skip_trivia(body, j)
        if k != j:
            j = k
            continue
        if body[j] in "([":
            par += 1
        elif body[j] in ")]":
            par -= 1
        elif body[j] == "{" and par == 0:
            break
        elif body[j] == ";" and par == 0:
            raise LostAnchor(f"{where}: fn {fname} has no body")
        j += 1
    sig = quals.strip() + (" " if quals.strip() else "") + body[m.start():j].strip()
    cb = match_close(body, j)
    return sig, body[j + 1:cb]


def find_const(body, cname, where):
    ms = code_positions(body, r"const\s+" + re.escape(cname) + r"\s*:", depth0_only=True)
    if len(ms) != 1:
        raise LostAnchor(f"{where}: `const {cname}` found {len(ms)} times")
    m = ms[0]
    ls = body.rfind("\n", 0, m.start()) + 1
    vis = body[ls:m.start()].strip()
    if vis not in ("", "pub"):
        raise LostAnchor(f"{where}: unexpected qualifiers before const {cname}: {vis!r}")
    end = body.find(";", m.end())
    decl = body[m.end():end]
    if "=" not in decl:
        raise LostAnchor(f"{where}: const {cname} without initializer")
    ty, expr = decl.split("=", 1)
    return vis, ty.strip(), expr.strip()


def find_type(text, tname, relfile):
    ms = code_positions(text, r"(pub\s+)?(struct|enum)\s+" + re.escape(tname) + r"\b", depth0_only=True)
    if len(ms) != 1:
        raise LostAnchor(f"{relfile}: type `{tname}` found {len(ms)} times")
    m = ms[0]
    semi = text.find(";", m.end())
    ob = text.find("{", m.end())
    if ob >= 0 and (semi < 0 or ob < semi):
        end = match_close(text, ob) + 1
    else:
        end = semi + 1
    decl = strip_comments_attrs(text[m.start():end])
    decl = "\n".join(l for l in decl.split("\n") if l.strip())
    # derive list: the attribute block immediately above the item
    head = text[:m.start()]
    derives = []
    k = len(head)
    # walk back over attribute / doc-comment lines
    lines = head.split("\n")
    block = []
    while lines:
        l = lines.pop()
        st = l.strip()
        if st == "" and not block:
            continue
        if st.startswith("///") or st.startswith("#[") or st.startswith(")]") or \
                re.fullmatch(r"[A-Za-z_:, ]+,?", st) and any("#[derive(" in x for x in lines[-14:]):
            block.append(l)
            continue
        break
    blk = "\n".join(reversed(block))
    dm = re.search(r"#\[derive\((.*?)\)\]", blk, re.S)
    if dm:
        derives = [d.strip() for d in dm.group(1).replace("\n", " ").split(",") if d.strip()]
    kept = [d for d in ALLOWED_DERIVES if d in derives]
    dropped = [d for d in derives if d not in ALLOWED_DERIVES]
    return decl, kept, dropped


# ----------------------------------------------------------------------------------------------
# overlay
# ----------------------------------------------------------------------------------------------

def parse_overlay(path):
    secs = []
    cur = None
    for ln, line in enumerate(open(path, encoding="utf-8").read().split("\n"), 1):
        if line.startswith("@@"):
            parts = line[2:].split()
            cur = {"kind": parts[0], "args": parts[1:], "body": [], "line": ln}
            secs.append(cur)
        elif cur is not None:
            cur["body"].append(line)
        elif line.strip() and not line.startswith("#"):
            raise ValueError(f"{path}:{ln}: text before first section")
    for s in secs:
        s["text"] = "\n".join(s["body"]).strip("\n")
    return secs


def _fields(text, keys):
    """Split a section body into `key:`-introduced blocks (key at line start)."""
    out = {k: "" for k in keys}
    cur = None
    for l in text.split("\n"):
        m = re.match(r"(\w[\w-]*):\s?(.*)$", l)
        if m and m.group(1) in keys:
            cur = m.group(1)
            out[cur] = m.group(2)
        elif cur:
            out[cur] += "\n" + l
    return {k: v.strip("\n") for k, v in out.items()}


def replace_once(hay, needle, repl, what):
    c = hay.count(needle)
    if c != 1:
        raise LostAnchor(f"{what}: source text `{needle.strip()[:70]}` found {c} times (need exactly 1)")
    return hay.replace(needle, repl)


def build(overlay_path, repo):
    """-> (verus_source, info) ; raises LostAnchor."""
    secs = parse_overlay(overlay_path)
    out = []
    info = {"items": [], "rewrites": [], "dropped": [], "contracts": []}
    srcs = {}

    def src(rel):
        if rel not in srcs:
            p = os.path.join(repo, rel)
            if not os.path.exists(p):
                raise LostAnchor(f"{rel}: file missing")
            srcs[rel] = open(p, encoding="utf-8").read()
        return srcs[rel]

    i = 0
    cur_impl = None  # (tname, relfile, body)
    while i < len(secs):
        s = secs[i]
        k = s["kind"]
        if k in ("preamble", "raw"):
            out.append(s["text"] + "\n")
        elif k == "type":
            rel, tname = s["args"][0], s["args"][1]
            decl, kept, dropped = find_type(src(rel), tname, rel)
            if kept:
                out.append("#[derive(" + ", ".join(kept) + ")]")
            out.append(decl + "\n")
            info["items"].append(f"type {tname} <- {rel}")
            if dropped:
                info["dropped"].append(f"{tname}: derives dropped: {', '.join(dropped)}")
            if "eqspec" in s["args"][2:]:
                if "PartialEq" not in kept:
                    raise LostAnchor(f"{rel}: {tname} no longer derives PartialEq (eqspec requested)")
                out.append(f"impl PartialEqSpecImpl for {tname} {{\n"
                           f"    open spec fn obeys_eq_spec() -> bool {{ true }}\n"
                           f"    open spec fn eq_spec(&self, other: &Self) -> bool {{ *self == *other }}\n}}\n")
                info["rewrites"].append(f"RW-EQSPEC {tname}: derived PartialEq assumed to be structural equality")
        elif k == "impl":
            rel, tname = s["args"][0], s["args"][1]
            cur_impl = (tname, rel, find_impl_body(src(rel), tname, rel))
            out.append(f"impl {tname} {{")
        elif k == "endimpl":
            out.append("}\n")
            cur_impl = None
        elif k == "const":
            tname, rel, body = cur_impl
            cname = s["args"][0]
            vis, ty, expr = find_const(body, cname, f"{rel}: impl {tname}")
            f = _fields(s["text"], ["ensures", "proof"])
            v = (vis + " ") if vis else ""
            if f["ensures"]:
                out.append(f"    {v}exec const {cname}: {ty}\n        ensures {f['ensures']}\n    {{\n"
                           + (f"        {f['proof']}\n" if f["proof"] else "")
                           + f"        {expr}\n    }}")
                info["rewrites"].append(f"RW-CONST {tname}::{cname}: exec const with ensures, initializer `{expr}` verbatim")
                info["contracts"].append(f"{tname}::{cname}")
            else:
                out.append(f"    {v}const {cname}: {ty} = {expr};")
            info["items"].append(f"const {tname}::{cname} <- {rel}")
        elif k == "fn":
            tname, rel, body = cur_impl
            fname = s["args"][0]
            where = f"{rel}: impl {tname}"
            sig, fbody = find_fn(body, fname, where)
            sig = strip_comments_attrs(sig)
            fbody = strip_comments_attrs(fbody)
            f = _fields(s["text"], ["ret", "requires", "ensures"])
            # sub-sections
            j = i + 1
            loops, n_for = {}, None
            while j < len(secs) and secs[j]["kind"] in ("loop", "rewrite", "insert", "closure"):
                sub = secs[j]
                qn = f"{tname}::{fname}"
                if sub["kind"] == "rewrite":
                    g = _fields(sub["text"], ["from", "to"])
                    fbody = replace_once(fbody, g["from"], g["to"], f"{where}::{fname} rewrite {sub['args'][0]}")
                    info["rewrites"].append(f"RW-TEXT {sub['args'][0]} in {qn}: `{g['from'].strip()}` -> `{g['to'].strip()}`")
                elif sub["kind"] == "insert":
                    g = _fields(sub["text"], ["before", "text"])
                    fbody = replace_once(fbody, g["before"], g["text"] + "\n" + g["before"],
                                         f"{where}::{fname} insert")
                    info["rewrites"].append(f"RW-INSERT in {qn}: proof block before `{g['before'].strip()[:50]}`")
                elif sub["kind"] == "closure":
                    g = _fields(sub["text"], ["param", "ret", "ensures"])
                    ms = list(re.finditer(r"\|(\w+)\|\s*", fbody))
                    if len(ms) != 1:
                        raise LostAnchor(f"{where}::{fname}: expected exactly one closure `|x| ..`, found {len(ms)}")
                    m = ms[0]
                    # closure body: up to the `)` closing the call that takes the closure
                    ob = fbody.rfind("(", 0, m.start())
                    cb = match_close(fbody, ob, "(", ")")
                    cbody = fbody[m.end():cb].strip()
                    pname, pty = g["param"].split(":")
                    if pname.strip() != m.group(1):
                        raise LostAnchor(f"{where}::{fname}: closure parameter is `{m.group(1)}`, overlay expects `{pname.strip()}`")
                    rname, rty = g["ret"].split(":")
                    new = (f"|{pname.strip()}: {pty.strip()}| -> ({rname.strip()}: {rty.strip()})\n"
                           f"                ensures {g['ensures']}\n                {{ {cbody} }}")
                    fbody = fbody[:m.start()] + new + fbody[cb:]
                    info["rewrites"].append(f"RW-CLOSURE in {qn}: `|{m.group(1)}| {cbody}` gets a type annotation and ensures; body verbatim")
                elif sub["kind"] == "loop":
                    loops[int(sub["args"][0])] = _fields(sub["text"], ["ghost", "clauses"])
                j += 1
            if loops:
                ms = list(re.finditer(r"\bfor\s+(.+?)\s+in\s+(.+?)\s*\{", fbody))
                if len(ms) != len(loops) or sorted(loops) != list(range(1, len(ms) + 1)):
                    raise LostAnchor(f"{where}::{fname}: {len(ms)} `for` loops in source, overlay has invariants for {sorted(loops)}")
                for idx in range(len(ms), 0, -1):
                    m = ms[idx - 1]
                    L = loops[idx]
                    new = (f"for {m.group(1)} in {L['ghost']}: {m.group(2)}\n"
                           f"{L['clauses']}\n        {{")
                    fbody = fbody[:m.start()] + new + fbody[m.end():]
                    info["rewrites"].append(f"RW-LOOP #{idx} in {tname}::{fname}: `for {m.group(1)} in {m.group(2)}` gets ghost iterator `{L['ghost']}` and invariants")
            elif re.search(r"\bfor\s+.+?\s+in\s+", fbody):
                raise LostAnchor(f"{where}::{fname}: source now has a `for` loop but the overlay has no invariant for it")
            # signature
            spec = ""
            if f["ret"]:
                m = re.search(r"->\s*(.+)$", sig, re.S)
                if not m:
                    raise LostAnchor(f"{where}::{fname}: no return type in signature")
                sig = sig[:m.start()] + f"-> ({f['ret']}: {m.group(1).strip()})"
            if f["requires"]:
                spec += f"\n        requires\n{f['requires']}"
            if f["ensures"]:
                spec += f"\n        ensures\n{f['ensures']}"
            if f["ret"] or spec:
                info["rewrites"].append(f"RW-SIG {tname}::{fname}: named return + contract")
                info["contracts"].append(f"{tname}::{fname}")
            out.append(f"    {sig}{spec}\n    {{\n{fbody}\n    }}\n")
            info["items"].append(f"fn {tname}::{fname} <- {rel}")
            i = j - 1
        else:
            raise ValueError(f"overlay line {s['line']}: unknown section kind {k}")
        i += 1

    header = [
        "// GENERATED on every run by /verif/lib/verus_engine.py from the CURRENT source text of the repository",
        f"// repo = {repo}",
        f"// overlay = {overlay_path}",
        "// Function bodies, const initializers, loop patterns/iterables and closure bodies are verbatim source text.",
        "// Dropped by the extraction: all attributes (#[inline], #[repr], #[cfg_attr], #[schema]), doc comments and",
        "// comments, derive entries other than Clone/Copy/PartialEq/Eq, trait impl wrappers (PathPolicy, FromStr,",
        "// Display, From), constructors/parsers/`matches_any_in` helpers and tests (not extracted at all).",
        "// Type definitions are re-emitted from the source field/variant lists with the reduced derive list.",
        "// Extracted items:",
    ] + ["//   " + x for x in info["items"]] + ["// Rewrites applied (each exactly once):"] + \
        ["//   " + x for x in info["rewrites"]] + ["// Dropped:"] + ["//   " + x for x in info["dropped"]]
    text = "\n".join(header) + "\n#![allow(unused_imports, dead_code)]\nuse vstd::prelude::*;\n" \
        "use vstd::std_specs::cmp::*;\n\nverus! {\n\n" + "\n".join(out) + "\n} // verus!\n\nfn main() {}\n"
    return text, info


# ----------------------------------------------------------------------------------------------
# run
# ----------------------------------------------------------------------------------------------

def _assumption_scan(path, verif):
    pats = [r"external_body", r"assume_specification", r"\badmit\(", r"\bassume\(", r"PartialEqSpecImpl"]
    found = []
    for ln, line in enumerate(open(path, encoding="utf-8").read().split("\n"), 1):
        s = line.strip()
        if s.startswith("//") or s.startswith("#"):
            continue
        for p in pats:
            if re.search(p, s):
                found.append(f"{os.path.relpath(path, verif)}:{ln}: {s[:160]}")
                break
    return found


def run_unit(unit, prop, tier, workdir, repo, verif):
    uid = unit["id"]
    overlay = unit["overlay"]
    res = {"cmd": "", "assumptions": [], "obligations": 0, "discharged": 0, "solver_s": 0.0,
           "samples": [], "distinct": [], "kind": "ok", "reason": "", "failed": [], "replay": None,
           "version": None,
           "evidence": {"harness": f"verus:{uid}", "class": "P", "bound": None,
                        "clause": unit.get("what", ""), "backend": "Verus 0.2026.09.13 / Z3"}}
    ev = res["evidence"]
    os.makedirs(workdir, exist_ok=True)
    gen = os.path.join(workdir, f"verus_{uid.replace('-', '_')}.rs")
    res["cmd"] = f"python3 {os.path.join(verif, 'lib/verus_engine.py')} (extract {overlay} from {repo}) && verus {gen} --output-json --time"
    try:
        text, info = build(overlay, repo)
    except LostAnchor as e:
        res.update(kind="undecided", reason=f"unit {uid}: lost anchor: {e}")
        ev["kind"] = "undecided"
        return res
    with open(gen, "w") as f:
        f.write(text)
    ev["extraction"] = info
    res["assumptions"] = _assumption_scan(overlay, verif) + [
        f"verus unit {uid}: " + x for x in info["rewrites"] if x.startswith("RW-EQSPEC")] + [
        f"verus unit {uid}: extraction drops attributes, comments, non-(Clone/Copy/PartialEq/Eq) derives; "
        "trait impl wrappers and parsers are not extracted"]
    cmd = ["verus", gen, "--output-json", "--time", "--multiple-errors", "20",
           "--rlimit", str(unit.get("rlimit", 30))]
    t0 = time.time()
    try:
        p = subprocess.run(cmd, cwd=workdir, stdout=subprocess.PIPE, stderr=subprocess.PIPE, text=True,
                           timeout=unit.get("timeout", 900))
        so, se, rc = p.stdout, p.stderr, p.returncode
    except subprocess.TimeoutExpired:
        res.update(kind="undecided", reason=f"unit {uid}: verus timed out")
        ev["kind"] = "undecided"
        return res
    except FileNotFoundError:
        res.update(kind="undecided", reason=f"unit {uid}: verus not installed")
        ev["kind"] = "undecided"
        return res
    wall = time.time() - t0
    with open(os.path.join(workdir, f"verus_{uid}.log"), "w") as f:
        f.write(so + "\n----- stderr -----\n" + se)
    try:
        data = json.loads(so)
    except Exception:
        res.update(kind="undecided", reason=f"unit {uid}: verus produced no JSON (rc={rc}): " + se.strip()[-300:])
        ev["kind"] = "undecided"
        return res
    vr = data.get("verification-results", {})
    res["version"] = (data.get("verus") or {}).get("version")
    tm = data.get("times-ms", {})
    smt = tm.get("smt", {})
    res["solver_s"] = (smt.get("total", 0) or 0) / 1000.0
    fb = []
    for mod in smt.get("smt-run-module-times", []):
        fb += mod.get("function-breakdown", [])
    crate = os.path.basename(gen)[:-3]
    mine = [x for x in fb if x["function"].startswith(crate + "::")]
    n_ver, n_err = vr.get("verified", 0), vr.get("errors", 0)
    res["obligations"] = n_ver + n_err
    res["discharged"] = n_ver
    ev.update({"checks": n_ver + n_err, "passed": n_ver, "covers": 0, "verifier_time_s": round(wall, 2),
               "solver_time_s": res["solver_s"],
               "functions": [{"function": x["function"], "mode": x.get("mode:"), "rlimit": x.get("rlimit"),
                              "success": x.get("success")} for x in mine]})
    errors = [m.group(1) for m in re.finditer(r"^error(?:\[\w+\])?: (.*)$", se, re.M)
              if not m.group(1).startswith("aborting due to")]
    tool_words = ("rlimit", "Resource limit", "not supported", "unsupported", "The verifier does not yet support",
                  "cannot find", "expected", "mismatched types", "unresolved", "no method named", "cannot call function")
    # where did verification errors land?  map error spans to function names via `-->` lines is fragile;
    # use the per-function `success` flags.
    failed_fns = [x["function"][len(crate) + 2:] for x in mine if x.get("success") is False]
    if rc == 0 and vr.get("success") and n_err == 0:
        if n_ver == 0 or not info["contracts"]:
            res.update(kind="undecided", reason=f"unit {uid}: vacuous (0 functions verified)")
            ev["kind"] = "vacuous"
            return res
        # every function under contract must have been verified
        names = {x["function"][len(crate) + 2:] for x in mine if x.get("success")}
        missing = [c for c in info["contracts"] if not any(n == c or n.endswith("::" + c.split("::")[-1]) for n in names)]
        ev["kind"] = "ok"
        ev["contracts"] = info["contracts"]
        if missing:
            ev["unmatched_contract_names"] = missing
        for c in info["contracts"]:
            res["distinct"].append(("verus", uid, c))
        res["samples"] = [
            {"harness": f"verus:{uid}", "obligation": "AclPolicy::matches: path.len()>0 ==> (r <==> forall i. "
             "first_match(entries, default, path[i]) == Allow), unbounded entries and hops", "status": "discharged",
             "class": "P"},
            {"harness": f"verus:{uid}", "obligation": "HopPredicate::matches == documented wildcard table "
             "(ISD 0 / AS 0 / interface 0, Either vs Both)", "status": "discharged", "class": "P"}]
        return res
    if vr.get("encountered-vir-error") or any(any(w in e for w in tool_words) for e in errors) or \
            (n_err == 0 and rc != 0):
        res.update(kind="undecided",
                   reason=f"unit {uid}: verus tool limit / unsupported construct / rlimit: " + " | ".join(errors)[:400])
        ev["kind"] = "undecided"
        return res
    # genuine failed obligations
    ev["kind"] = "violated"
    descs = []
    for fn in failed_fns or ["<unknown function>"]:
        descs.append({"description": f"{prop}.verus.{fn.replace('::', '_')}: Verus obligation of `{fn}` "
                      f"(contract in {os.path.relpath(overlay, verif)}) not discharged: "
                      + "; ".join(sorted(set(errors)))[:200]})
    res["failed"] = descs
    res["kind"] = "violated"
    rdir = os.environ.get("VERIF_REPLAY_DIR", os.path.join(verif, "replays"))
    os.makedirs(rdir, exist_ok=True)
    rp = os.path.join(rdir, f"{prop}-verus-{uid}.txt")
    with open(rp, "w") as f:
        f.write(f"REPLAY property={prop} unit=verus:{uid}\n"
                f"failed obligations (Verus has no counterexamples): {', '.join(failed_fns)}\n"
                f"paired bounded Kani harness for a concrete input: {unit.get('paired_kani', '(none)')} "
                f"(run in the same `check {prop}`)\n"
                f"generated file: {gen}\ncommand: {' '.join(cmd)}\n\n----- verus stderr -----\n{se}\n")
    res["replay"] = rp
    return res


if __name__ == "__main__":
    import sys
    t, inf = build(sys.argv[1], sys.argv[2] if len(sys.argv) > 2 else "/repo")
    sys.stdout.write(t)
