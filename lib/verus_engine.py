"""Engine V: mechanical extraction of functions from /repo + contract overlay, checked by Verus.
(filled in with unit C16)"""


def run_unit(unit, prop, tier, workdir, repo, verif):
    raise NotImplementedError
