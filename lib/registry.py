"""Registry of verification units. One file per property in lib/units/Cxx.py, each defining
PROP = {...}. See lib/units/C17.py for the format.

harness class: P = proved class (loop-free or loops bounded by operand width with unwinding
assertions on, every quantified input fully symbolic over its domain); B = bounded stand-in
(the bound is stated in `bound`)."""
import glob
import importlib.util
import os


def H(name, cls="B", tier="quick", bound=None, what="", timeout=900, known_finding=None):
    return {"name": name, "cls": cls, "tier": tier, "bound": bound, "what": what,
            "timeout": timeout, "known_finding": known_finding}


def _load():
    props = {}
    here = os.path.join(os.path.dirname(os.path.abspath(__file__)), "units")
    for f in sorted(glob.glob(os.path.join(here, "C*.py"))):
        name = os.path.basename(f)[:-3]
        spec = importlib.util.spec_from_file_location("units_" + name, f)
        mod = importlib.util.module_from_spec(spec)
        spec.loader.exec_module(mod)
        props[name] = mod.PROP
    return props


PROPS = _load()
