#!/usr/bin/env python3
"""Regenerate /verif/MANIFEST.json from lib/units/*.py (claimed properties) and lib/manifest_base.json
(setup, hooks, not_applicable). Only properties listed in manifest_base.json["claimed"] are
registered as checks, so a unit under construction is not claimed by accident."""
import json
import os
import sys

VERIF = os.path.dirname(os.path.dirname(os.path.abspath(__file__)))
sys.path.insert(0, os.path.join(VERIF, "lib"))
import registry  # noqa: E402


def main():
    base = json.load(open(os.path.join(VERIF, "lib", "manifest_base.json")))
    claimed = base.pop("claimed")
    checks = []
    engines = {}
    for pid in claimed:
        P = registry.PROPS[pid]
        allh = [h for u in P["units"] if u["engine"] == "kani" for h in u["harnesses"]]
        hs = [h for h in allh if h.get("tier", "quick") in ("quick", "thorough")]
        nX = len(allh) - len(hs)
        nP = sum(1 for h in hs if h.get("cls") == "P")
        nB = len(hs) - nP
        has_v = any(u["engine"] == "verus" for u in P["units"])
        level = P.get("level", "model_checking")
        text = P.get("level_text") or (
            ("Deductive, per-function contracts proved for all inputs"
             + (f" (plus {nB} labelled bounded stand-ins that are not counted as proved): " if nB else ": ")
             if level == "proof" else "Contract obligations on the real code, partly bounded: ")
            + "; ".join(P.get("clauses", []))[:1500])
        note = P.get("level_note") or (
            "Trusted: Kani 0.68/CBMC 6.11/CaDiCaL" + (", Verus+Z3" if has_v else "") + "; "
            + (f"{nP} harnesses in the proved class (loop-free / width-bounded, full-domain inputs), "
               f"{nB} bounded stand-ins (bounds in evidence.coverage.bounded_stand_ins)"
               + (f"; {nX} further harnesses are written but do not discharge here (tier experimental, never run, listed as not decided). " if nX else ". "))
            + ("Assumptions: " + "; ".join(P.get("assumptions", [])) + ". " if P.get("assumptions") else "")
            + ("NOT decided: " + "; ".join(P.get("not_decided", [])) if P.get("not_decided") else ""))[:3000]
        tech = P.get("technique") or (
            "contract-based deductive verification: Kani harness/function contracts on the real crate "
            "(assume=requires, assert=ensures, inductive steps over arbitrary wf states)"
            + (" + Verus on mechanically extracted functions" if has_v else ""))
        checks.append({
            "property_id": pid,
            "quick_cmd": f"bin/check {pid} --tier quick",
            "thorough_cmd": f"bin/check {pid} --tier thorough",
            "evidence_file": f"/verif/evidence/{pid}.json",
            "replay_cmd_template": "cat {path}",
            "engine": "V+K" if has_v else "K",
            "level_claimed": {"category": level, "text": text, "design_ref": f"DESIGN.md §3/{pid}"},
            "level_note": note,
            "technique": tech,
        })
        for u in P["units"]:
            e = "V" if u["engine"] == "verus" else "K"
            engines.setdefault(e, set()).add(pid)
    base["checks"] = checks
    base["engines"] = [
        {"name": "K", "path": "lib/vcheck.py + kani/", "serves_properties": sorted(engines.get("K", [])),
         "kind_free_text": "Kani 0.68 / CBMC 6.11 on the real crates: harness-level contracts (assume=requires, "
                           "assert=ensures, byte-wise frames), in-place kani::requires/ensures, inductive steps over "
                           "arbitrary wf states; bounded stand-ins labelled"},
        {"name": "V", "path": "lib/verus_engine.py + verus/", "serves_properties": sorted(engines.get("V", [])),
         "kind_free_text": "Verus 0.2026.09.13 on functions extracted mechanically from /repo on every run + contract overlay"},
    ]
    json.dump(base, open(os.path.join(VERIF, "MANIFEST.json"), "w"), indent=1)
    print(f"MANIFEST.json: {len(checks)} checks, {len(base.get('not_applicable', []))} not applicable")


if __name__ == "__main__":
    main()
