#!/usr/bin/env python3
"""Offline setup: pre-build (codegen only) every crate that carries contract modules so that the
dependency cones are compiled once into /verif/.cache/kani. Nothing is fetched."""
import os
import subprocess
import sys
import time

VERIF = os.path.dirname(os.path.dirname(os.path.abspath(__file__)))
sys.path.insert(0, os.path.join(VERIF, "lib"))
import registry  # noqa: E402

REPO = os.environ.get("VERIF_REPO", "/repo")
TARGET = os.environ.get("VERIF_KANI_TARGET", os.path.join(VERIF, ".cache", "kani"))


def main():
    dirs = []
    for pid, p in sorted(registry.PROPS.items()):
        for u in p["units"]:
            if u["engine"] == "kani" and u["crate_dir"] not in dirs:
                dirs.append(u["crate_dir"])
    env = dict(os.environ, CARGO_NET_OFFLINE="true", CARGO_TERM_COLOR="never")
    rc = 0
    for d in dirs:
        t0 = time.time()
        cmd = ["cargo", "kani", "--target-dir", TARGET, "-Z", "unstable-options", "-Z", "function-contracts",
               "-Z", "stubbing", "--only-codegen"]
        p = subprocess.run(cmd, cwd=os.path.join(REPO, d), env=env, stdout=subprocess.PIPE,
                           stderr=subprocess.STDOUT, text=True)
        print(f"[setup] {d}: codegen exit {p.returncode} in {time.time() - t0:.0f}s", flush=True)
        if p.returncode != 0:
            print("\n".join(p.stdout.splitlines()[-30:]))
            rc = 1
    # verus smoke test (engine V)
    try:
        v = subprocess.run(["verus", "--version"], stdout=subprocess.PIPE, stderr=subprocess.STDOUT, text=True)
        print("[setup] " + v.stdout.strip().splitlines()[0])
    except Exception as e:  # noqa: BLE001
        print(f"[setup] verus not runnable: {e}")
    return rc


if __name__ == "__main__":
    sys.exit(main())
